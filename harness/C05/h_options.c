/* C05 unit: rtosc_match_options on a concrete "{a,b,..}" group, symbolic message.
 * Contract (doc/Guide.adoc, "{a,b}" alternatives): if the message text at *msg
 * starts with one of the alternatives, *msg is advanced past it and the
 * returned pattern pointer is just after the '}'; otherwise NULL and *msg unchanged. */
#include <rtosc/rtosc.h>
#include <string.h>
#include "nd.h"
const char *rtosc_match_options(const char *pattern, const char **msg);
#define ML 6
static char m[ML + 1];
static const char *const ALTS[] = { ALT_LIST };
#define NALT (sizeof(ALTS) / sizeof(ALTS[0]))
static const char PAT[] = PATTERN;
void harness(void)
{
    for(int j = 0; j < ML; j++) m[j] = nd_char();
    m[ML] = 0;
    int hit = -1;
    for(unsigned k = 0; k < NALT && hit < 0; k++) {
        int ok = 1; unsigned j = 0;
        for(; ALTS[k][j]; j++) if(m[j] != ALTS[k][j]) { ok = 0; break; }
        if(ok) hit = (int)j;
    }
    const char *mp = m;
    const char *r = rtosc_match_options(PAT, &mp);
    const char *close = strchr(PAT, '}');
    if(hit >= 0) {
        CHECK(r == close + 1, "C05 options: a spelled alternative is accepted and the pattern continues after '}'");
        CHECK(mp == m + hit, "C05 options: the message advances by exactly the alternative");
        WITNESS("C05 options hit");
    } else {
        CHECK(r == 0, "C05 options: text spelling none of the alternatives is rejected");
        CHECK(mp == m, "C05 options: message position unchanged on rejection");
        WITNESS("C05 options miss");
    }
}
