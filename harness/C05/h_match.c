/* C05: rtosc_match / rtosc_match_path against a reference matcher written
 * from the documented pattern language.  The pattern is concrete (PATTERN and
 * its parsed form SEGS/TYPES are emitted by the generator); the message
 * address, its type tag string and the bytes after it are symbolic. */
#include <rtosc/rtosc.h>
#include <string.h>
#include "nd.h"

#ifndef AMAX
#define AMAX 8            /* address: 0..AMAX chars */
#endif
#define COMMA (AMAX + 4)  /* position of the ',' (address area is NUL filled up to it) */
#define TMAX 3            /* type tags: 0..TMAX chars */
#define MSGLEN (COMMA + 1 + TMAX + 1 + 3)
static char msg[MSGLEN];

enum { LIT = 1, NUM, ALT };
typedef struct { int kind; const char *lit; unsigned max; int nalt; const char *alt[4]; } seg_t;
#include PATTERN_INC   /* defines: PATTERN, static const seg_t SEGS[], NSEGS, TRAILING_SLASH, HAS_TYPES, NTYPES, TYPES[] */

static int is_digit(char c) { return c >= '0' && c <= '9'; }

/* returns -1 for no match, otherwise the number of address chars consumed by the path part */
static int ref_path(const char *a)
{
    int p = 0;
    for(int s = 0; s < NSEGS; s++) {
        const seg_t *g = &SEGS[s];
        if(g->kind == LIT) {
            for(int j = 0; g->lit[j]; j++) { if(a[p] != g->lit[j]) return -1; p++; }
        } else if(g->kind == NUM) {
            if(!is_digit(a[p])) return -1;
            uint64_t v = 0;
            while(is_digit(a[p])) { v = v * 10 + (uint64_t)(a[p] - '0'); p++; }
            if(!(v < g->max)) return -1;
        } else {
            int hit = -1;
            for(int k = 0; k < g->nalt && hit < 0; k++) {
                int ok = 1, j = 0;
                for(; g->alt[k][j]; j++) if(a[p + j] != g->alt[k][j]) { ok = 0; break; }
                if(ok) hit = j;
            }
            if(hit < 0) return -1;
            p += hit;
        }
    }
    if(TRAILING_SLASH) { if(a[p] != '/') return -1; return p + 1; }
    if(a[p] != 0) return -1;
    return p;
}

/* 1 = must match, 0 = must not match, 2 = unconstrained (extension of an alternative only) */
static int ref_types(const char *t)
{
#if !HAS_TYPES
    return 1;
#else
    int ext = 0;
    for(int k = 0; k < NTYPES; k++) {
        if(strcmp(t, TYPES[k]) == 0) return 1;
        size_t l = strlen(TYPES[k]);
        if(strncmp(t, TYPES[k], l) == 0) ext = 1;
    }
    return ext ? 2 : 0;
#endif
}

void harness(void)
{
    int ended = 0;
    for(int j = 0; j < COMMA; j++) {
        char c = nd_char();
        if(j >= AMAX || ended) c = 0;
        if(c == 0) ended = 1;
        msg[j] = c;
    }
    msg[COMMA] = ',';
    for(int j = 0; j < TMAX; j++) msg[COMMA + 1 + j] = nd_char();
    msg[COMMA + 1 + TMAX] = 0;
    for(int j = COMMA + 2 + TMAX; j < MSGLEN; j++) msg[j] = nd_char(); /* whatever follows in memory */

    int rp = ref_path(msg);
    int rt = ref_types(msg + COMMA + 1);
    RT_BEGIN();
    const char *pe = 0;
    bool m = rtosc_match(PATTERN, msg, &pe);
    const char *pe2 = 0;
    const char *mp = rtosc_match_path(PATTERN, msg, &pe2);
    RT_END();

    if(rp < 0) {
        CHECK(!m, "C05 address not spelled by the pattern never matches");
        CHECK(mp == 0, "C05 rtosc_match_path rejects an address not spelled by the pattern");
    } else {
        CHECK(mp != 0, "C05 rtosc_match_path accepts an address spelled by the pattern");
        CHECK(mp == 0 || pe2 == msg + rp, "C05 path end reported where the pattern's path ends");
        if(rt == 1) {
            CHECK(m, "C05 address spelled by the pattern with admitted type tags matches");
            CHECK(!m || pe == msg + rp, "C05 match reports the path end");
            WITNESS("C05 positive match");
        } else if(rt == 0) {
            CHECK(!m, "C05 type tags neither equal to nor extending an alternative never match");
        }
    }
    if(rp < 0) WITNESS("C05 negative address");
    WITNESS("C05 end");
}
