/* C14: the library's parameter-port callbacks (real macros of port-sugar.h),
 * invoked directly on one Port with d.loc / d.port / d.obj set the way dispatch
 * sets them.  KIND selects the port; incoming and stored values are symbolic. */
#include REPO_PORTS
#include <rtosc/port-sugar.h>
#include "nd.h"
#include "shim.h"
using namespace rtosc;

struct Obj { char a; int b; int nb; float c; bool t; int o; char arr[4]; float farr[3]; bool tarr[3]; char str[4]; };
#define rObject Obj
#if KIND == 1
static const Port P = rParamI(b, rLinear(-5,5), "int");
#define LOC "/b"
#elif KIND == 2
static const Port P = rParamI(nb, "int without bounds");
#define LOC "/nb"
#elif KIND == 3
static const Port P = rParam(a, "char");
#define LOC "/a"
#elif KIND == 4
static const Port P = rParamF(c, rLinear(-3.5,20.25), "float");
#define LOC "/c"
#elif KIND == 5
static const Port P = rToggle(t, "toggle");
#define LOC "/t"
#elif KIND == 6
static const Port P = rOption(o, rOptions(aa, bb, cc), rLinear(0,2), "option");
#define LOC "/o"
#elif KIND == 11   /* option names where a later name is a proper prefix of an earlier one */
static const Port P = rOption(o, rOptions(aab, aa, cc), rLinear(0,2), "option");
#define LOC "/o"
#elif KIND == 7
static const Port P = rArrayI(arr, 4, rLinear(0,9), "array");
#define LOC "/arr"
#elif KIND == 8
static const Port P = rArrayF(farr, 3, rLinear(0,1), "float array");
#define LOC "/farr"
#elif KIND == 9
static const Port P = rArrayT(tarr, 3, "toggle array");
#define LOC "/tarr"
#elif KIND == 10
static const Port P = rString(str, 4, "string");
#define LOC "/str"
#endif
#undef rObject

static bool streq(const char *a, const char *b) { for(int j = 0; j < 16; j++) { if(a[j] != b[j]) return false; if(!a[j]) return true; } return true; }
/* recording RtData: one buffer per kind of event (no symbolic indexing) */
struct Cap : public RtData {
    char ubuf[64], bbuf[64], rbuf[64]; int nundo, nbcast, nreply;
    void reply(const char *path, const char *args, ...) override
    { va_list va; va_start(va, args);
      if(streq(path, "/undo_change")) { rtosc_vmessage(ubuf, 64, path, args, va); nundo++; }
      else { rtosc_vmessage(rbuf, 64, path, args, va); nreply++; }
      va_end(va); }
    void broadcast(const char *path, const char *args, ...) override
    { va_list va; va_start(va, args); rtosc_vmessage(bbuf, 64, path, args, va); nbcast++; va_end(va); }
    void reply(const char *msg) override { memcpy(rbuf, msg, 64); nreply++; }
    void broadcast(const char *msg) override { memcpy(bbuf, msg, 64); nbcast++; }
};
static bool same_obj(const Obj &x, const Obj &y)
{
    bool r = x.a == y.a && x.b == y.b && x.nb == y.nb && x.c == y.c && x.t == y.t && x.o == y.o;
    for(int j = 0; j < 4; j++) r = r && x.arr[j] == y.arr[j] && x.str[j] == y.str[j];
    for(int j = 0; j < 3; j++) r = r && x.farr[j] == y.farr[j] && x.tarr[j] == y.tarr[j];
    return r;
}
static Obj o;
static char msg[32], loc[16];
static Cap d;   /* static: cbmc propagates constants through global objects, not through address-taken locals */

extern "C" void harness(void)
{
    VERIF_INIT();
    d.nundo = d.nbcast = d.nreply = 0;
    d.obj = &o; d.port = &P; d.loc_size = sizeof loc; d.loc = loc;
    /* arbitrary stored state */
    o.a = nd_char(); o.b = nd_i32(); o.nb = nd_i32(); o.c = nd_float(); o.t = nd_bool(); o.o = nd_i32();
    for(int j = 0; j < 4; j++) o.arr[j] = nd_char();
    for(int j = 0; j < 3; j++) { o.farr[j] = nd_float(); o.tarr[j] = nd_bool(); }
    for(int j = 0; j < 3; j++) o.str[j] = nd_char(); o.str[3] = 0;
    ASSUME(o.c == o.c); for(int j = 0; j < 3; j++) ASSUME(o.farr[j] == o.farr[j]);
    const Obj pre = o;
    /* address (arrays: index digit appended) */
    int idx = 0;
    { int p = 0; for(const char *s = LOC; *s; s++) loc[p++] = *s;
#if KIND == 7
      idx = IDX; loc[p++] = (char)('0' + idx);   /* element index concrete per query */
#elif KIND == 8 || KIND == 9
      idx = IDX; loc[p++] = (char)('0' + idx);
#endif
      loc[p] = 0; }
    const bool query = QUERY;   /* concrete per query: the type tag string decides the message layout */
    rtosc_arg_t arg; memset(&arg, 0, sizeof arg);
    const char *tags = "";
    static char sarg[6];
    int32_t vi = nd_i32(); float vf = nd_float(); ASSUME(vf == vf);
#ifdef FLOAT_SMALL   /* variant: magnitudes an int can hold (float->int conversions elsewhere stay defined, so counterexamples replay) */
    ASSUME(vf > -1.0e9f && vf < 1.0e9f && o.c > -1.0e9f && o.c < 1.0e9f);
#endif
    const bool vt = VT;
    if(!query) {
#if KIND == 1 || KIND == 2 || KIND == 6 || KIND == 7
        tags = "i"; arg.i = vi;
#elif KIND == 3
        tags = "c"; ASSUME(vi >= -128 && vi <= 127); arg.i = vi;
#elif KIND == 4 || KIND == 8
        tags = "f"; arg.f = vf;
#elif KIND == 5 || KIND == 9
        tags = vt ? "T" : "F";
#elif KIND == 10
        tags = "s"; for(int j = 0; j < 5; j++) sarg[j] = nd_char(); sarg[5] = 0; arg.s = sarg;
#elif KIND == 11
        tags = "S"; { const int w = VT ? 1 : 2; const char c_ = VT ? 'a' : 'c'; sarg[0] = c_; sarg[1] = c_; sarg[2] = 0; arg.s = sarg; vi = w; }   /* "aa" -> 1, "cc" -> 2 */
#endif
    }
#if KIND == 7
    ASSUME(vi >= -128 && vi <= 127);   /* char-backed kind, driven with -128..127 as the statement says */
#endif
    size_t len = rtosc_amessage(msg, sizeof msg, loc + 1, tags, &arg);
    CHECK(len > 0, "C14 harness message built");
    RT_BEGIN();
    P.cb(msg, d);
    RT_END();
    const int nundo = d.nundo, nbcast = d.nbcast, nreply = d.nreply;
    if(query) {
        CHECK(nreply == 1 && nbcast == 0 && nundo == 0, "C14 a message without arguments produces exactly one reply");
        CHECK(streq(d.rbuf, loc), "C14 the reply goes to the port's full address");
        CHECK(same_obj(o, pre), "C14 a query changes nothing");
#if KIND == 1
        CHECK(v_arg_i(d.rbuf, 0) == pre.b, "C14 the reply carries the stored value");
#elif KIND == 4
        CHECK(v_arg_f(d.rbuf, 0) == pre.c, "C14 the reply carries the stored value");
#elif KIND == 7
        CHECK(v_arg_i(d.rbuf, 0) == pre.arr[idx], "C14 the reply carries the stored array element");
#endif
        WITNESS("C14 query");
    } else {
#if KIND == 1
        int want = vi < -5 ? -5 : (vi > 5 ? 5 : vi);
        CHECK(o.b == want, "C14 stored value is the incoming value clamped to [min,max]");
        CHECK(nbcast == 1 && v_arg_i(d.bbuf, 0) == want && streq(d.bbuf, loc), "C14 the change is broadcast with the new value at the port's address");
        CHECK(nundo == (pre.b != want ? 1 : 0), "C14 exactly one undo event iff the stored value changed");
        if(nundo == 1) CHECK(streq(v_arg_s(d.ubuf, 0), loc) && v_arg_i(d.ubuf, 1) == pre.b && v_arg_i(d.ubuf, 2) == want, "C14 the undo event carries address, true previous value and new value");
        { Obj x = pre; x.b = o.b; CHECK(same_obj(o, x), "C14 nothing else is modified"); }
#elif KIND == 2
        CHECK(o.nb == vi, "C14 without declared bounds the incoming value is stored unchanged");
        CHECK(nbcast == 1 && v_arg_i(d.bbuf, 0) == vi, "C14 the change is broadcast with the new value");
        CHECK(nundo == (pre.nb != vi ? 1 : 0), "C14 exactly one undo event iff the stored value changed");
        if(nundo == 1) CHECK(v_arg_i(d.ubuf, 1) == pre.nb && v_arg_i(d.ubuf, 2) == vi, "C14 the undo event carries the true previous value and the new value");
#elif KIND == 3
        int want = vi < 0 ? 0 : vi;       /* -128..127 clamped to [0,127] */
        CHECK(o.a == (char)want, "C14 char parameter clamped to [0,127]");
        CHECK(nbcast == 1 && v_arg_i(d.bbuf, 0) == want, "C14 the change is broadcast with the new value");
        CHECK(nundo == (pre.a != (char)want ? 1 : 0), "C14 exactly one undo event iff the stored value changed");
        if(nundo == 1) CHECK(v_arg_i(d.ubuf, 1) == pre.a && v_arg_i(d.ubuf, 2) == want, "C14 the undo event carries the true previous value and the new value");
#elif KIND == 4
        float want = vf < -3.5f ? -3.5f : (vf > 20.25f ? 20.25f : vf);
        CHECK(o.c == want, "C14 float parameter clamped to its fractional bounds");
        CHECK(nbcast == 1 && v_arg_f(d.bbuf, 0) == want, "C14 the change is broadcast with the new value");
        CHECK(nundo == (pre.c != want ? 1 : 0), "C14 exactly one undo event iff the stored value changed");
        if(nundo == 1) CHECK(v_arg_f(d.ubuf, 1) == pre.c && v_arg_f(d.ubuf, 2) == want, "C14 the undo event carries the true previous value and the new value");
#elif KIND == 5
        CHECK(o.t == vt, "C14 toggle stores the incoming value");
        CHECK(nbcast == (pre.t != vt ? 1 : 0), "C14 a toggle change is broadcast");
        CHECK(nundo == 0 && nreply == 0, "C14 toggles emit nothing else");
#elif KIND == 6 || KIND == 11
        int want = vi < 0 ? 0 : (vi > 2 ? 2 : vi);
        CHECK(o.o == want, "C14 option stores the index (symbols translated, integers clamped)");
        CHECK(nbcast == 1 && v_arg_i(d.bbuf, 0) == want, "C14 the change is broadcast with the new value");
        CHECK(nundo == (pre.o != want ? 1 : 0), "C14 exactly one undo event iff the stored value changed");
        if(nundo == 1) CHECK(v_arg_i(d.ubuf, 1) == pre.o && v_arg_i(d.ubuf, 2) == want, "C14 the undo event carries the true previous value and the new value");
#elif KIND == 7
        int want = vi < 0 ? 0 : (vi > 9 ? 9 : vi);
        CHECK(o.arr[idx] == (char)want, "C14 array element clamped to [min,max]");
        for(int j = 0; j < 4; j++) if(j != idx) CHECK(o.arr[j] == pre.arr[j], "C14 an array port touches only the element its address names");
        CHECK(nbcast == 1 && v_arg_i(d.bbuf, 0) == want, "C14 the change is broadcast with the new value");
        CHECK(nundo == (pre.arr[idx] != (char)want ? 1 : 0), "C14 exactly one undo event iff the stored value changed");
        if(nundo == 1) CHECK(v_arg_i(d.ubuf, 1) == pre.arr[idx] && v_arg_i(d.ubuf, 2) == want, "C14 the undo event carries the true previous value and the new value");
#elif KIND == 8
        float want = vf < 0.0f ? 0.0f : (vf > 1.0f ? 1.0f : vf);
        CHECK(o.farr[idx] == want, "C14 float array element clamped");
        for(int j = 0; j < 3; j++) if(j != idx) CHECK(o.farr[j] == pre.farr[j], "C14 an array port touches only the element its address names");
        CHECK(nbcast == 1 && v_arg_f(d.bbuf, 0) == want, "C14 the change is broadcast with the new value");
        CHECK(nundo == (pre.farr[idx] != want ? 1 : 0), "C14 exactly one undo event iff the stored value changed");
        if(nundo == 1) CHECK(v_arg_f(d.ubuf, 1) == pre.farr[idx] && v_arg_f(d.ubuf, 2) == want, "C14 the undo event carries the true previous value and the new value");
#elif KIND == 9
        CHECK(o.tarr[idx] == vt, "C14 toggle array element stores the incoming value");
        for(int j = 0; j < 3; j++) if(j != idx) CHECK(o.tarr[j] == pre.tarr[j], "C14 an array port touches only the element its address names");
        CHECK(nbcast == (pre.tarr[idx] != vt ? 1 : 0), "C14 a toggle change is broadcast");
#elif KIND == 10
        { bool ok = true; int e = 0; for(int j = 0; j < 3; j++) { if(!e && sarg[j] == 0) e = 1; if(o.str[j] != (e ? 0 : sarg[j])) ok = false; }
          CHECK(ok && o.str[3] == 0, "C14 string truncated to the declared length"); }
        CHECK(nbcast == 1 && streq(v_arg_s(d.bbuf, 0), o.str), "C14 the change is broadcast with the new value");
#endif
        WITNESS("C14 set");
    }
    WITNESS("C14 end");
}
