/* C08: bundles compose and decompose losslessly.  SHAPE = decimal digits, one
 * per element: 1 = "/a" ",i" (12 bytes), 2 = "/bc" ",s" + 2 symbolic chars (12),
 * 4 = same with 4 chars (16), 3 = nested empty bundle (16),
 * 5 = nested bundle holding one kind-1 message (32), 6 = bundle nested twice (52). */
#include <rtosc/rtosc.h>
#include <string.h>
#include "nd.h"
#include "msg_ref.h"
#ifndef NEL
#define NEL 0
#endif
#define ELMAX 56
#define NEEDMAX (16 + NEL * (4 + ELMAX))
#define OBJ (NEEDMAX + 16)
static char buf[OBJ];
static unsigned char el[4][ELMAX + 8];
static unsigned elen[4];

static unsigned mk(unsigned char *o, int kind)
{
    unsigned p = 0;
    if(kind == 1) { o[p++] = '/'; o[p++] = 'a'; p = ref_pad(o, p); o[p++] = ','; o[p++] = 'i'; p = ref_pad(o, p); p = ref_u32(o, p, nd_u32()); }
    else if(kind == 2 || kind == 4) {
        o[p++] = '/'; o[p++] = 'b'; o[p++] = 'c'; p = ref_pad(o, p); o[p++] = ','; o[p++] = 's'; p = ref_pad(o, p);
        for(int j = 0; j < kind; j++) { char c = nd_char(); ASSUME(c != 0); o[p++] = (unsigned char)c; }
        p = ref_pad(o, p); }
    else if(kind == 3) { memcpy(o, "#bundle", 8); p = 8; p = ref_u64(o, p, nd_u64()); }
    else if(kind == 5) { memcpy(o, "#bundle", 8); p = 8; p = ref_u64(o, p, nd_u64()); p = ref_u32(o, p, 12); p += mk(o + p, 1); }
    else if(kind == 6) { memcpy(o, "#bundle", 8); p = 8; p = ref_u64(o, p, nd_u64()); p = ref_u32(o, p, 32); p += mk(o + p, 5); }
    return p;
}

void harness(void)
{
    int shape = SHAPE;
    int kinds[4] = {0, 0, 0, 0};
    for(int k = NEL - 1; k >= 0; k--) { kinds[k] = shape % 10; shape /= 10; }
    for(int k = 0; k < NEL; k++) { elen[k] = mk(el[k], kinds[k]); for(unsigned j = elen[k]; j < ELMAX + 8; j++) el[k][j] = 0; }
    uint64_t tt = nd_u64();
    unsigned R = 16; for(int k = 0; k < NEL; k++) R += 4 + elen[k];
    for(unsigned j = 0; j < OBJ; j++) buf[j] = nd_char();   /* destination is a reused buffer with stale bytes */
    size_t cap = R + CAPX;   /* concrete: exact fit, or room to spare (bytes beyond cap stay stale) */
    RT_BEGIN();
#if NEL == 0
    size_t r = rtosc_bundle(buf, cap, tt, 0);
#elif NEL == 1
    size_t r = rtosc_bundle(buf, cap, tt, 1, el[0]);
#elif NEL == 2
    size_t r = rtosc_bundle(buf, cap, tt, 2, el[0], el[1]);
#elif NEL == 3
    size_t r = rtosc_bundle(buf, cap, tt, 3, el[0], el[1], el[2]);
#else
    size_t r = rtosc_bundle(buf, cap, tt, 4, el[0], el[1], el[2], el[3]);
#endif
    CHECK(r == R, "C08 bundle length is header plus size-prefixed elements");
    CHECK(rtosc_bundle_p(buf), "C08 result is recognised as a bundle");
    CHECK(rtosc_bundle_timetag(buf) == tt, "C08 time tag preserved");
    CHECK(rtosc_bundle_elements(buf, r) == NEL, "C08 element count (exact length)");
    CHECK(rtosc_bundle_elements(buf, cap) == NEL, "C08 element count (buffer capacity as length)");
    CHECK(rtosc_message_length(buf, r) == r, "C08 length function reports the bundle length (exact length)");
    CHECK(rtosc_message_length(buf, cap) == r, "C08 length function reports the bundle length (buffer capacity as length)");
    unsigned off = 16;
    for(int k = 0; k < NEL; k++) {
        const char *e = rtosc_bundle_fetch(buf, k);
        CHECK(e == buf + off + 4, "C08 element fetched at its position");
        CHECK(rtosc_bundle_size(buf, k) == elen[k], "C08 element size exact");
        int same = 1; for(unsigned j = 0; j < ELMAX; j++) if(j < elen[k] && (unsigned char)buf[off + 4 + j] != el[k][j]) same = 0;
        CHECK(same, "C08 element bytes identical");
        CHECK(rtosc_bundle_p(e) == (kinds[k] == 3 || kinds[k] == 5 || kinds[k] == 6), "C08 nested bundles are bundles, messages are not");
        if(kinds[k] == 5) {
            CHECK(rtosc_bundle_elements(e, elen[k]) == 1, "C08 nested bundle keeps its element count");
            CHECK(rtosc_bundle_size(e, 0) == 12, "C08 nested bundle keeps its element size");
            CHECK(rtosc_message_length(e, elen[k]) == elen[k], "C08 nested bundle length");
        }
        if(kinds[k] == 6) {
            CHECK(rtosc_bundle_elements(e, elen[k]) == 1 && rtosc_bundle_p(rtosc_bundle_fetch(e, 0)), "C08 doubly nested bundle decomposes");
            CHECK(rtosc_bundle_elements(rtosc_bundle_fetch(e, 0), 32) == 1, "C08 innermost bundle keeps its element");
        }
        off += 4 + elen[k];
    }
    RT_END();
    WITNESS("C08 end");
}
