/* C08: a plain message is never mistaken for a bundle */
#include <rtosc/rtosc.h>
#include "nd.h"
static char buf[24];
void harness(void)
{
    for(int j = 0; j < 24; j++) buf[j] = nd_char();
    buf[23] = 0;
    ASSUME(buf[0] == '/');
    CHECK(!rtosc_bundle_p(buf), "C08 a message (address starts with '/') is never a bundle");
    char a[8] = "#bundle"; int k = nd_range(0, 6); char c = nd_char(); ASSUME(c != a[k]); a[k] = c;
    CHECK(!rtosc_bundle_p(a), "C08 any text differing from \"#bundle\" is not a bundle");
    WITNESS("C08 end");
}
