/* C07: validation of untrusted bytes.  The buffer object has exactly N bytes
 * (cbmc's bounds checks are the "reads only inside" oracle); contents are
 * symbolic except for the prefix fixed by PREFIX/TAGS (structured modes). */
#include <rtosc/rtosc.h>
#include <string.h>
#include "nd.h"
#ifndef N
#define N 12
#endif
static char buf[N];

typedef struct {
    int ok; unsigned len, tags_off, ntags, nargs;
    char type[N]; unsigned off[N]; unsigned slen[N];
} ref_t;
static ref_t R;

static uint32_t be32(const unsigned char *b, unsigned p)
{ return ((uint32_t)b[p] << 24) | ((uint32_t)b[p+1] << 16) | ((uint32_t)b[p+2] << 8) | b[p+3]; }
static uint64_t be64(const unsigned char *b, unsigned p)
{ return ((uint64_t)be32(b, p) << 32) | be32(b, p + 4); }

/* independent OSC 1.0 decoder (lenient about the *content* of pad bytes after
 * the type tags / strings, strict about every length and terminator) */
static void ref_decode(const unsigned char *b, unsigned n, ref_t *r)
{
    r->ok = 0; r->nargs = 0;
    unsigned p = 0;
    if(n == 0 || b[0] != '/') return;
    while(p < n && b[p]) p++;
    if(p >= n) return;
    p = (p / 4 + 1) * 4;
    if(p >= n || b[p] != ',') return;
    r->tags_off = p + 1;
    unsigned q = p + 1;
    while(q < n && b[q]) q++;
    if(q >= n) return;
    r->ntags = q - (p + 1);
    unsigned data = p + ((q - p) / 4 + 1) * 4;
    if(data > n) return;
    for(unsigned k = 0; k < r->ntags; k++) {
        char t = (char)b[p + 1 + k];
        unsigned sz = 0, sl = 0;
        if(t == '[' || t == ']') continue;
        if(t == 'i' || t == 'f' || t == 'c' || t == 'r' || t == 'm') sz = 4;
        else if(t == 'h' || t == 't' || t == 'd') sz = 8;
        else if(t == 's' || t == 'S') {
            unsigned e = data;
            while(e < n && b[e]) e++;
            if(e >= n) return;
            sl = e - data;
            sz = (sl / 4 + 1) * 4;
        } else if(t == 'b') {
            if(data + 4 > n) return;
            uint32_t bl = be32(b, data);
            if(bl > n) return;
            sl = bl;
            sz = 4 + ((bl + 3) / 4) * 4;
        }
        if(data + sz > n) return;
        r->type[r->nargs] = t; r->off[r->nargs] = data; r->slen[r->nargs] = sl;
        r->nargs++;
        data += sz;
    }
    r->len = data;
    r->ok = 1;
}

static void cmp_arg(char t, rtosc_arg_t a, unsigned k)
{
    const unsigned char *b = (const unsigned char *)buf;
    unsigned o = R.off[k];
    if(t == 'i' || t == 'c' || t == 'r' || t == 'f')
        CHECK((uint32_t)a.i == be32(b, o), "C07 accessor 32-bit value equals reference");
    else if(t == 'h' || t == 't' || t == 'd')
        CHECK(a.t == be64(b, o), "C07 accessor 64-bit value equals reference");
    else if(t == 'm')
        CHECK(a.m[0] == b[o] && a.m[1] == b[o+1] && a.m[2] == b[o+2] && a.m[3] == b[o+3], "C07 accessor midi equals reference");
    else if(t == 's' || t == 'S')
        CHECK(a.s == buf + o, "C07 accessor string payload at reference offset (inside buffer, terminated inside)");
    else if(t == 'b') {
        CHECK((uint32_t)a.b.len == R.slen[k], "C07 accessor blob length equals reference");
        CHECK((char *)a.b.data == buf + o + 4, "C07 accessor blob payload at reference offset");
        CHECK(o + 4 + (uint64_t)(uint32_t)a.b.len <= N, "C07 blob payload inside buffer");
    } else if(t == 'T') CHECK(a.T == 1, "C07 T is true");
    else if(t == 'F') CHECK(a.T == 0, "C07 F is false");
}

void harness(void)
{
    for(unsigned i = 0; i < N; i++) buf[i] = nd_char();
#ifdef PREFIX
    { static const char pre[] = PREFIX; for(unsigned i = 0; i < sizeof(pre) - 1 && i < N; i++) buf[i] = pre[i]; }
#endif
    RT_BEGIN();
    size_t l = rtosc_message_length(buf, N);
    CHECK(l == 0 || l <= N, "C07 reported length is 0 or at most n");
    ref_decode((const unsigned char *)buf, N, &R);
#ifndef LEN_ONLY
    bool v = rtosc_valid_message_p(buf, N);
    if(v) {
        CHECK(l == N, "C07 valid implies length function reports n");
        CHECK(R.ok, "C07 accepted buffer is decodable by the reference decoder");
        CHECK(!R.ok || R.len == N, "C07 accepted buffer: reference length equals n");
        if(R.ok && R.len == N) {
            WITNESS("C07 valid message accepted");
#if !defined(PART) || PART == 1
            const char *as = rtosc_argument_string(buf);
            CHECK(as == buf + R.tags_off, "C07 argument string at reference offset");
            unsigned na = rtosc_narguments(buf);
            CHECK(na == R.nargs, "C07 argument count equals reference");
#endif
#if !defined(PART) || PART == 2
#ifdef K
            for(unsigned k = K; k < R.nargs && k <= K; k++) {
#else
            for(unsigned k = 0; k < R.nargs; k++) {
#endif
                char t = rtosc_type(buf, k);
                CHECK(t == R.type[k], "C07 type by index equals reference");
                cmp_arg(R.type[k], rtosc_argument(buf, k), k);
            }
#endif
#if !defined(PART) || PART == 3
            rtosc_arg_itr_t it = rtosc_itr_begin(buf);
            unsigned cnt = 0;
            while(!rtosc_itr_end(it)) {
                rtosc_arg_val_t av = rtosc_itr_next(&it);
                CHECK(cnt < R.nargs, "C07 iterator yields no more than reference count");
                if(cnt < R.nargs) {
                    CHECK(av.type == R.type[cnt], "C07 iterator type equals reference");
                    cmp_arg(R.type[cnt], av.val, cnt);
                }
                cnt++;
            }
            CHECK(cnt == R.nargs, "C07 iterator yields exactly the reference count");
#endif
            if(R.nargs > 0) WITNESS("C07 valid message with arguments accepted");
        }
    } else {
#ifdef REQUIRE_COMPLETE
        /* completeness is not part of C07; kept for experiments only */
        CHECK(!(R.ok && R.len == N), "validator rejects a reference-valid message");
#endif
    }
#else
    if(l) WITNESS("C07 nonzero length");
#endif
    RT_END();
    WITNESS("C07 end");
}
