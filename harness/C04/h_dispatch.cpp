/* C04: Ports::dispatch over a generated two-level table.  The table objects are CONSTRUCTED DIRECTLY
 * (static Port arrays; vector internals of an empty-constructed Ports pointed at them; the perfect-hash
 * vectors produced natively by the real search, see hashdump.cpp, installed into the Port_Matcher):
 * the libstdc++ construction path does not get through cbmc.  dispatch, rtosc_match*, hard_match, scat
 * and the recursion idiom of rRecurCb are the real code.  Compile with -fno-access-control. */
#include REPO_PORTS
#include <rtosc/port-sugar.h>
#include "nd.h"
using namespace rtosc;

struct Rec { int hits; const Port *port; void *obj; char loc[32]; int has_loc; };
#define NREC 16
static Rec rec[NREC];
static char objmem[64];
static void record(int k, const char *m, RtData &d)
{
    rec[k].hits++; rec[k].port = d.port; rec[k].obj = d.obj; rec[k].has_loc = d.loc != 0;
    if(d.loc) { int e = 0; for(int j = 0; j < 31; j++) { rec[k].loc[j] = e ? 0 : d.loc[j]; if(!d.loc[j]) e = 1; } rec[k].loc[31] = 0; }
    (void)m;
}
#define LEAF(K) [](const char *msg, RtData &d) { record(K, msg, d); }
#define SUBTREE(K, T, OFF) [](const char *msg, RtData &d) { record(K, msg, d); d.obj = (char *)d.obj + OFF; SNIP T.dispatch(msg, d); }
static int ndefault;
/* storage typed as Ports / Port_Matcher whose constructors are NOT run (state is constructed directly) */
union PortsHolder { Ports p; PortsHolder() {} ~PortsHolder() {} };
union MatcherHolder { Port_Matcher m; MatcherHolder() {} ~MatcherHolder() {} };
static PortsHolder ROOT_H, SUB_H;
static MatcherHolder ROOT_M, SUB_M;
#define ROOT (ROOT_H.p)
#define SUB (SUB_H.p)
#include TABLE_INC
/* TABLE_INC defines: static Ports ROOT({}), SUB({});  static Port ROOT_ARR[], SUB_ARR[];  NROOT, NSUB,
 * ROOT_SUBIDX (index of the subtree port in ROOT or -1), SUB_OFF, HASHED_ROOT (0/1) and, if hashed, the H_* arrays */

template<class V, class E> static void point_vector(V &v, E *first, int n)
{ v._M_impl._M_start = first; v._M_impl._M_finish = first + n; v._M_impl._M_end_of_storage = first + n; }

static bool is_dig(char c) { return c >= '0' && c <= '9'; }
/* reference matcher for port names of the documented form restricted to literals and #N:
 * -1 no match, otherwise the number of address chars consumed; *dontcare set when only the type clause is undecided */
static int ref_port(const char *name, const char *a, const char *tags, int *dontcare)
{
    int p = 0; const char *s = name; *dontcare = 0;
    while(*s && *s != ':') {
        if(*s == '#') {
            s++; unsigned long mx = 0; while(is_dig(*s)) mx = mx * 10 + (unsigned long)(*s++ - '0');
            if(!is_dig(a[p])) return -1;
            unsigned long v = 0; while(is_dig(a[p])) v = v * 10 + (unsigned long)(a[p++] - '0');
            if(!(v < mx)) return -1;
        } else if(*s == '/') {
            if(a[p] != '/') return -1;
            p++; s++;
            if(*s == 0 || *s == ':') return p;
        } else { if(a[p] != *s) return -1; p++; s++; }
    }
    if(a[p] != 0) return -1;
    if(*s == ':') {
        int eq = 0, ext = 0;
        const char *alt = s + 1;
        while(1) {
            int l = 0; while(alt[l] && alt[l] != ':') l++;
            int pre = 1; for(int j = 0; j < l; j++) if(tags[j] != alt[j]) { pre = 0; break; }
            if(pre && tags[l] == 0) eq = 1; else if(pre) ext = 1;
            if(!alt[l]) break;
            alt += l + 1;
        }
        if(eq) return p;
        if(ext) { *dontcare = 1; return p; }
        return -1;
    }
    return p;
}

static char msg[48];
static char loc[40];
static RtData d;
static int exp_hits[NREC], exp_dc[NREC];

static void run(bool with_loc)
{
    for(int k = 0; k < NREC; k++) { rec[k].hits = 0; rec[k].port = 0; rec[k].obj = 0; }
    ndefault = 0;
    d.obj = objmem; d.matches = 0; d.port = 0;
    if(with_loc) { d.loc = loc; d.loc_size = sizeof loc; for(unsigned j = 0; j < sizeof loc; j++) loc[j] = nd_char(); }
    else { d.loc = 0; d.loc_size = 0; }
    RT_BEGIN();
    ROOT.dispatch(msg, d, true);
    RT_END();
}

extern "C" void harness(void)
{
    VERIF_INIT();
    point_vector(ROOT.ports, ROOT_ARR, NROOT); ROOT.elms = NROOT; ROOT.impl = &ROOT_M.m;
    point_vector(SUB.ports, SUB_ARR, NSUB); SUB.elms = NSUB; SUB.impl = &SUB_M.m;
    new (&ROOT.default_handler) std::function<void(const char *, RtData &)>();
    new (&SUB.default_handler) std::function<void(const char *, RtData &)>();
    { Port_Matcher *pm[2] = { &ROOT_M.m, &SUB_M.m };
      for(int k = 0; k < 2; k++) { pm[k]->m_enump = 0; point_vector(pm[k]->pos, (int *)0, 0); point_vector(pm[k]->assoc, (int *)0, 0); point_vector(pm[k]->remap, (int *)0, 0);
        point_vector(pm[k]->fixed, (std::string *)0, 0); point_vector(pm[k]->arg_spec, (const char **)0, 0); } }
#if HASHED_ROOT
    { Port_Matcher *pm = ROOT.impl; pm->m_enump = H_ENUMP;
      point_vector(pm->pos, H_POS, H_NPOS); point_vector(pm->assoc, H_ASSOC, H_NASSOC); point_vector(pm->remap, H_REMAP, H_NREMAP);
      point_vector(pm->fixed, H_FIXED, H_NFIXED); point_vector(pm->arg_spec, H_ARGS, H_NFIXED); }
#endif
#if HASHED_SUB
    { Port_Matcher *pm = SUB.impl; pm->m_enump = S_ENUMP;
      point_vector(pm->pos, S_POS, S_NPOS); point_vector(pm->assoc, S_ASSOC, S_NASSOC); point_vector(pm->remap, S_REMAP, S_NREMAP);
      point_vector(pm->fixed, S_FIXED, S_NFIXED); point_vector(pm->arg_spec, S_ARGS, S_NFIXED); }
#endif
#if WITH_DEFAULT
    ROOT.default_handler = [](const char *, RtData &) { ndefault++; };
#endif
    /* message: "/" + ADDR_PRE [+ one symbolic byte] + ADDR_POST, then the concrete type tags TAGS */
    msg[0] = '/';
    int alen = 0;
    { const char *t = ADDR_PRE; while(*t) msg[1 + alen++] = *t++; }
#if ADDR_SYM
    { char c = nd_char(); ASSUME(c > 0 && c < 127); msg[1 + alen++] = c; }
#endif
    { const char *t = ADDR_POST; while(*t) msg[1 + alen++] = *t++; }
    for(int j = 1 + alen; j < (int)sizeof msg; j++) msg[j] = 0;
    { const char *t = TAGS; int p = ((alen + 1) / 4 + 1) * 4; msg[p++] = ','; while(*t) msg[p++] = *t++; msg[p] = 0; }
    const char *a = msg + 1;

    /* expected callbacks from the reference matcher, level by level */
    for(int k = 0; k < NREC; k++) { exp_hits[k] = 0; exp_dc[k] = 0; }
    int anydc = 0;
    for(int i = 0; i < NROOT; i++) {
        int dc; int c = ref_port(ROOT_ARR[i].name, a, TAGS, &dc);
        if(c < 0) continue;
        if(dc) { exp_dc[i] = 1; anydc = 1; continue; }
        exp_hits[i] = 1;
        if(i == ROOT_SUBIDX)
            for(int j = 0; j < NSUB; j++) {
                int dc2; int c2 = ref_port(SUB_ARR[j].name, a + c, TAGS, &dc2);
                if(c2 < 0) continue;
                if(dc2) { exp_dc[NROOT + j] = 1; anydc = 1; continue; }
                exp_hits[NROOT + j] = 1;
            }
    }
    ASSUME(!anydc);   /* type strings that merely extend an alternative are left unconstrained by the statement */

    run(LOC);
    int leafs = 0;
    for(int k = 0; k < NROOT + NSUB; k++) {
        CHECK(rec[k].hits == exp_hits[k], "C04 a callback is invoked exactly once iff the message matches its port at every level");
        if(rec[k].hits == 1) {
            const Port *own = k < NROOT ? &ROOT_ARR[k] : &SUB_ARR[k - NROOT];
            CHECK(rec[k].obj == (k < NROOT ? (void *)objmem : (void *)(objmem + SUB_OFF)), "C04 the runtime object is the one handed down by the parent levels");
            CHECK(rec[k].port == own, "C04 the callback sees the port pointer of its own port");
            if(!own->ports) leafs++;
#if LOC
            { /* the callback saw the full address up to and including its own component */
              int n = 0; while(msg[n]) n++;
              int upto = n;
              if(k == ROOT_SUBIDX) { upto = 1; while(msg[upto] && msg[upto] != '/') upto++; if(msg[upto] == '/') upto++; }
              int same = 1; for(int j = 0; j < 31; j++) { char want = j < upto ? msg[j] : 0; if(rec[k].loc[j] != want) same = 0; }
              CHECK(same, "C04 with a location buffer the callback sees the full address in it"); }
#endif
        }
    }
#if LOC
    CHECK(d.matches == leafs + ndefault, "C04 the match count after a root dispatch equals the number of leaf callbacks invoked (the default handler counts as one)");
    CHECK(ndefault == 0 || leafs == 0, "C04 the default handler runs only when no port took the message");
    CHECK(loc[0] == '/' && loc[1] == 0, "C04 the location buffer is restored after the dispatch");
    /* independence from the lookup strategy: the LOC=0 query of the same template checks the same expected set */
#endif
    if(leafs) WITNESS("C04 a leaf was reached");
    WITNESS("C04 end");
}
