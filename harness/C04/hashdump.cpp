/* native helper: build the table with the REAL constructor and print the perfect-hash vectors the
 * real search produced, as C arrays for the cbmc harness (which constructs the state directly) */
#include REPO_PORTS
#include <cstdio>
using namespace rtosc;
#include TABLE_INC   /* defines: static const char *NAMES[]; NPORTS */
int main(void)
{
    std::vector<Port> v;
    Ports T({});
    for(int i = 0; i < NPORTS; i++) T.ports.push_back({NAMES[i], "", nullptr, [](const char *, RtData &) {}});
    T.refreshMagic();
    Port_Matcher *pm = T.impl;
    const char *P_ = PREFIX;   /* "H" for the root table, "S" for the sub-table */
    printf("#define %s_NPOS %d\n#define %s_NASSOC %d\n#define %s_NREMAP %d\n", P_, (int)pm->pos.size(), P_, (int)pm->assoc.size(), P_, (int)pm->remap.size());
    printf("static int %s_POS[] = {", P_); for(int x : pm->pos) printf("%d,", x); printf("0};\n");
    printf("static int %s_ASSOC[] = {", P_); for(int x : pm->assoc) printf("%d,", x); printf("0};\n");
    printf("static int %s_REMAP[] = {", P_); for(int x : pm->remap) printf("%d,", x); printf("0};\n");
    printf("static bool %s_ENUMP[] = {", P_); for(int i = 0; i < NPORTS; i++) printf("%d,", (int)pm->enump()[i]); printf("0};\n");
    printf("static std::string %s_FIXED[] = {", P_); for(auto &s : pm->fixed) printf("\"%s\",", s.c_str()); printf("\"\"};\n");
    printf("static const char *%s_ARGS[] = {", P_); for(auto s : pm->arg_spec) { if(s) printf("\"%s\",", s); else printf("0,"); } printf("0};\n");
    printf("#define %s_NFIXED %d\n", P_, (int)pm->fixed.size());
    return 0;
}
