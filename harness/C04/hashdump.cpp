/* native helper: build the table with the REAL constructor and print the perfect-hash vectors the
 * real search produced, as C arrays for the cbmc harness (which constructs the state directly) */
#include REPO_PORTS
#include <cstdio>
using namespace rtosc;
#include TABLE_INC   /* defines: static const char *NAMES[]; NPORTS */
int main(void)
{
    std::vector<Port> v;
    Ports T({});
    for(int i = 0; i < NPORTS; i++) T.ports.push_back({NAMES[i], "", nullptr, [](const char *, RtData &) {}});
    T.refreshMagic();
    Port_Matcher *pm = T.impl;
    printf("#define H_NPOS %d\n#define H_NASSOC %d\n#define H_NREMAP %d\n", (int)pm->pos.size(), (int)pm->assoc.size(), (int)pm->remap.size());
    printf("static int H_POS[] = {"); for(int x : pm->pos) printf("%d,", x); printf("0};\n");
    printf("static int H_ASSOC[] = {"); for(int x : pm->assoc) printf("%d,", x); printf("0};\n");
    printf("static int H_REMAP[] = {"); for(int x : pm->remap) printf("%d,", x); printf("0};\n");
    printf("static bool H_ENUMP[] = {"); for(int i = 0; i < NPORTS; i++) printf("%d,", (int)pm->enump()[i]); printf("0};\n");
    printf("static std::string H_FIXED[] = {"); for(auto &s : pm->fixed) printf("\"%s\",", s.c_str()); printf("\"\"};\n");
    printf("static const char *H_ARGS[] = {"); for(auto s : pm->arg_spec) { if(s) printf("\"%s\",", s); else printf("0,"); } printf("0};\n");
    printf("#define H_NFIXED %d\n", (int)pm->fixed.size());
    return 0;
}
