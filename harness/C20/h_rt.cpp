/* C20 (realtime half): MidiMapperStorage::handleCC / cloneValues, MidiBijection, MidiMapperRT::handleCC from a
 * directly constructed, symbolic snapshot (compile with -fno-access-control). */
#include REPO_MIDIMAPPER
#include "nd.h"
#include "shim.h"
using namespace rtosc;
#define NM 3
#define NV 2
typedef MidiMapperStorage::write_cb write_cb;
typedef MidiMapperStorage::callback_t callback_t;
static int cb_hits[NV], cb_val[NV];
static int fe_hits; static char fe_msg[32];
static int be_hits;

static void fill(MidiMapperStorage &st, std::tuple<int, bool, int> *map, callback_t *cbs, int *vals, int ids[NM], bool coarse[NM], int slot[NM])
{
    for(int i = 0; i < NM; i++) {
        ids[i] = nd_range(0, 1 << 19); coarse[i] = nd_bool(); slot[i] = (SLOTS >> i) & 1;   /* slot assignment concrete per query: the callback index stays concrete */
        std::get<0>(map[i]) = ids[i]; std::get<1>(map[i]) = coarse[i]; std::get<2>(map[i]) = slot[i];
    }
    for(int i = 0; i < NM; i++) for(int j = i + 1; j < NM; j++) ASSUME(ids[i] != ids[j]);   /* a controller id is assigned once */
    for(int k = 0; k < NV; k++) vals[k] = nd_range(0, 16383);
    st.mapping.n = NM; st.mapping.t = map;
    st.callbacks.n = NV; st.callbacks.t = cbs;
    st.values.n = NV; st.values.t = vals;
}

extern "C" void harness(void)
{
    static std::tuple<int, bool, int> map[NM], map2[NM];
    static int vals[NV], vals2[NV];
    callback_t cbs[NV] = { [](int16_t v, write_cb) { cb_hits[0]++; cb_val[0] = v; }, [](int16_t v, write_cb) { cb_hits[1]++; cb_val[1] = v; } };
    MidiMapperStorage st;
    int ids[NM], slot[NM]; bool coarse[NM];
    fill(st, map, cbs, vals, ids, coarse, slot);
    const int pre0 = vals[0], pre1 = vals[1];
    write_cb backend = [](const char *) { be_hits++; };
    write_cb frontend = [](const char *m) { fe_hits++; memcpy(fe_msg, m, 32); };
#if PART == 1
    int ID = nd_range(0, 1 << 19), val = nd_range(0, 127);
    int hit = -1; for(int i = NM - 1; i >= 0; i--) if(ids[i] == ID) hit = i;
    RT_BEGIN();
    bool r = st.handleCC(ID, val, backend);
    RT_END();
    if(hit < 0) {
        CHECK(!r, "C20 a controller that was never assigned is not handled");
        CHECK(cb_hits[0] == 0 && cb_hits[1] == 0, "C20 a controller that was never assigned produces no parameter message");
        CHECK(vals[0] == pre0 && vals[1] == pre1, "C20 an unassigned controller changes no value");
        WITNESS("C20 unassigned");
    } else {
        int s = slot[hit], old = s ? pre1 : pre0;
        int want = coarse[hit] ? ((val << 7) | (old & 0x7f)) : (val | (old & 0x3f80));
        CHECK(r, "C20 an assigned controller is handled");
        CHECK(cb_hits[s] == 1 && cb_hits[1 - s] == 0, "C20 an assigned controller drives exactly the callback of its parameter, once");
        CHECK(cb_val[s] == want && want >= 0 && want <= 16383, "C20 the value is the composed 14-bit value (7-bit coarse, 7-bit fine) in [0,16383]");
        CHECK(vals[s] == want && vals[1 - s] == (s ? pre0 : pre1), "C20 other bindings' values are unaffected");
        WITNESS("C20 assigned");
    }
#elif PART == 2
    /* the next generation: same callbacks, new symbolic mapping; cloneValues carries each id's 7 bits over */
    MidiMapperStorage nx;
    int ids2[NM], slot2[NM]; bool coarse2[NM];
    fill(nx, map2, cbs, vals2, ids2, coarse2, slot2);
    /* each value half (slot, coarse/fine) is driven by at most one controller in the new generation */
    for(int i = 0; i < NM; i++) for(int j = i + 1; j < NM; j++) ASSUME(!(slot2[i] == slot2[j] && coarse2[i] == coarse2[j]));
    RT_BEGIN();
    nx.cloneValues(st);
    RT_END();
    for(int i = 0; i < NM; i++) {
        int src = -1; for(int j = 0; j < NM; j++) if(ids[j] == ids2[i]) src = j;
        int got = coarse2[i] ? (vals2[slot2[i]] >> 7) : (vals2[slot2[i]] & 0x7f);
        if(src >= 0) {
            int seven = coarse[src] ? ((slot[src] ? pre1 : pre0) >> 7) : ((slot[src] ? pre1 : pre0) & 0x7f);
            CHECK(got == seven, "C20 a controller's 7 bits are carried into the next generation");
            WITNESS("C20 carried");
        } else CHECK(got == 0, "C20 halves without a previous controller start at 0");
    }
    CHECK(vals[0] == pre0 && vals[1] == pre1, "C20 cloning does not modify the old generation");
#elif PART == 3
    MidiBijection b; b.mode = 0; b.min = BMIN; b.max = BMAX;
    int x1 = nd_range(0, 16383), x2 = nd_range(0, 16383); ASSUME(x1 <= x2);
    float y1 = b(x1), y2 = b(x2);
    CHECK(y1 >= BMIN && y2 <= BMAX, "C20 the mapped value lies within the parameter's [min,max]");
    CHECK(y1 <= y2, "C20 the mapped value grows monotonically with the controller value");
    if(x1 == 0) CHECK(y1 == BMIN, "C20 controller value 0 maps to min");
#elif PART == 4
    MidiMapperRT rt;
    rt.backend = backend; rt.frontend = frontend;
    rt.storage = HAVE_ST ? &st : 0;   /* concrete per query */
    rt.watchSize = nd_range(0, 2);
    const int npend = NPEND; int pend[2] = { nd_range(0, 1 << 19), nd_range(0, 1 << 19) };
    ASSUME(pend[0] != pend[1]);
    for(int k = 0; k < npend; k++) rt.pending.insert(pend[k]);
    int par = nd_range(0, 127), val = nd_range(0, 127); char chan = (char)nd_range(0, 16); bool nrpn = nd_bool();
    int ID = ((int)nrpn << 18) + ((((chan < 1 ? 1 : chan) - 1) & 0x0f) << 14) + par;
    bool mapped = false; if(rt.storage) for(int i = 0; i < NM; i++) if(ids[i] == ID) mapped = true;
    bool waspending = false; for(int k = 0; k < npend; k++) if(pend[k] == ID) waspending = true;
    const int w0 = rt.watchSize;
    RT_BEGIN();
    rt.handleCC(par, val, chan, nrpn);
    RT_END();
    if(mapped) {
        CHECK(fe_hits == 0 && rt.watchSize == w0 && rt.pending.size == npend, "C20 an assigned controller does not touch the learn handshake");
        CHECK(cb_hits[0] + cb_hits[1] == 1, "C20 an assigned controller produces exactly one parameter message");
        WITNESS("C20 rt assigned");
    } else {
        CHECK(cb_hits[0] + cb_hits[1] == 0, "C20 controllers that were never assigned produce no parameter message");
        if(!waspending && w0 > 0) {
            CHECK(fe_hits == 1 && rt.watchSize == w0 - 1 && rt.pending.has(ID), "C20 an unassigned controller is offered to the non-realtime side once while a learn request is waiting");
            CHECK(strcmp(fe_msg, "/midi-use-CC") == 0 && v_arg_i(fe_msg, 0) == ID, "C20 the offer names the controller id");
            int fe1 = fe_hits;
            rt.handleCC(par, val, chan, nrpn);
            CHECK(fe_hits == fe1, "C20 the same controller is not offered twice while it is pending");
            WITNESS("C20 rt offered");
        } else CHECK(fe_hits == 0 && rt.watchSize == w0 && rt.pending.size == npend, "C20 without a waiting learn request (or while already pending) nothing happens");
    }
#endif
    WITNESS("C20 end");
}
