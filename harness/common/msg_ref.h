/* reference OSC 1.0 encoder pieces, written from the specification
 * (independent of src/rtosc.c): big endian numbers, NUL padded to 4 bytes. */
#ifndef MSG_REF_H
#define MSG_REF_H
#include <stdint.h>
static unsigned ref_pad(unsigned char *o, unsigned p) { do { o[p++] = 0; } while(p % 4); return p; }
static unsigned ref_str(unsigned char *o, unsigned p, const char *s, unsigned maxlen)
{
    for(unsigned i = 0; i < maxlen && s[i]; i++) o[p++] = (unsigned char)s[i];
    return ref_pad(o, p);
}
static unsigned ref_u32(unsigned char *o, unsigned p, uint32_t v)
{ o[p] = v >> 24; o[p+1] = v >> 16; o[p+2] = v >> 8; o[p+3] = v; return p + 4; }
static unsigned ref_u64(unsigned char *o, unsigned p, uint64_t v)
{ p = ref_u32(o, p, (uint32_t)(v >> 32)); return ref_u32(o, p, (uint32_t)v); }
static unsigned ref_blob(unsigned char *o, unsigned p, uint32_t len, const unsigned char *d, unsigned maxlen)
{
    p = ref_u32(o, p, len);
    for(unsigned i = 0; i < maxlen && i < len; i++) o[p++] = d ? d[i] : 0;
    while(p % 4) o[p++] = 0;
    return p;
}
static uint32_t f2u(float f) { union { float f; uint32_t u; } x; x.f = f; return x.u; }
static uint64_t d2u(double f) { union { double f; uint64_t u; } x; x.f = f; return x.u; }
#endif
