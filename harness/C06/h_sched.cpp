/* C06 (schedules): one writer thread and one reader thread over the real ThreadLink code, every
 * interleaving at the granularity of the atomic loads/stores of the ring indices and of the buffer
 * copies.  tools/ll2c.py emits writer_thread / reader_thread as RESUMABLE step functions (locals static,
 * a saved program counter, and before every atomic access or memcpy the function may return to the
 * scheduler: `if(verif_yield()) {pc = k; return 0;}`), the harness interleaves the two step functions
 * under a symbolic schedule.  Memory model: sequential consistency at those points. */
#define private public
#include REPO_THREADLINK
#undef private
#include "nd.h"
using namespace rtosc;
#ifndef MAXMSG
#define MAXMSG 16
#endif
#ifndef NMSG
#define NMSG 2
#endif
#define RS (MAXMSG * NMSG)
extern "C" uint32_t writer_thread__step(void);
extern "C" uint32_t reader_thread__step(void);
static ThreadLink *tl;
static char wm[2][24];          /* the two messages the writer sends (sizes W0, W1) */
static char got[3][MAXMSG];     /* what the reader received, in order */
static int ngot;
/* concrete schedule per query: thread t yields to the other one at its YAT[t][0]-th and YAT[t][1]-th yield point
 * (a yield point = an atomic index load/store or a buffer copy); -1 = never.  The program counters of the step
 * functions stay concrete, the message payloads are symbolic. */
static int cur, ycount[2];
static const int YAT[2][2] = { { YW1, YW2 }, { YR1, YR2 } };
extern "C" uint32_t verif_yield(void) { int c = ycount[cur]++; return c == YAT[cur][0] || c == YAT[cur][1]; }

static void mkmsg(char *o, int size, char name)
{
    for(int j = 0; j < 24; j++) o[j] = 0;
    o[0] = '/'; o[1] = name; o[4] = ',';
    int n = (size - 8) / 4;
    for(int j = 0; j < n; j++) o[5 + j] = 'i';
    for(int j = 8; j < size; j++) o[j] = nd_char();
}
extern "C" void writer_thread(void)
{
#if WOPS >= 2
    tl->raw_write(wm[0]);
#endif
    tl->raw_write(wm[1]);
}
extern "C" void reader_thread(void)
{
    for(int k = 0; k < 2; k++)
        if(tl->hasNext()) {
            const char *r = tl->read();
            if(ngot < 3) memcpy(got[ngot], r, MAXMSG);
            ngot++;
        }
}
static bool same(const char *a, const char *b, int n) { for(int j = 0; j < MAXMSG; j++) if(j < n && a[j] != b[j]) return false; return true; }

extern "C" void harness(void)
{
    VERIF_INIT();
    tl = new ThreadLink(MAXMSG, NMSG);
    /* pre-position the ring (sequentially) so that the concurrent part crosses the wrap-around point */
    for(int k = 0; k < PRE; k++) { char pm[24]; mkmsg(pm, 12, 'p'); tl->raw_write(pm); (void)tl->read(); }
    mkmsg(wm[0], W0, 'a'); mkmsg(wm[1], W1, 'b');
#if WOPS < 2
    tl->raw_write(wm[0]);     /* the first message is already queued when the threads start */
#endif
    ngot = 0; ycount[0] = ycount[1] = 0;
    RT_BEGIN();
    uint32_t wd = 0, rd = 0;
    cur = FIRST;                       /* 0 = writer starts, 1 = reader starts */
    for(int step = 0; step < 8 && !(wd && rd); step++) {
        if(cur == 0 ? wd : rd) cur = !cur;          /* that thread has finished: the other one continues */
        if(cur == 0) wd = writer_thread__step(); else rd = reader_thread__step();
        cur = !cur;                                  /* a step returns at a yield (or at the end): switch */
    }
    CHECK(wd && rd, "C06 both threads finish within the step budget");
    RT_END();
    /* drain what is left, sequentially */
    for(int k = 0; k < 3 && tl->hasNext(); k++) { const char *r = tl->read(); if(ngot < 3) memcpy(got[ngot], r, MAXMSG); ngot++; }
    /* both messages fit into the free space of the ring: both are accepted */
    CHECK(ngot == 2, "C06 under every interleaving no message is lost or duplicated");
    CHECK(ngot < 1 || same(got[0], wm[0], W0), "C06 under every interleaving the first message arrives first, untorn");
    CHECK(ngot < 2 || same(got[1], wm[1], W1), "C06 under every interleaving the second message arrives second, untorn");
    CHECK(!tl->hasNext(), "C06 hasNext is false once everything accepted has been consumed");
    WITNESS("C06 schedule end");
}
