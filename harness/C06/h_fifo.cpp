/* C06 (sequential part): one operation from an arbitrary valid ring state.
 * Ring of RS = MAXMSG*2 bytes.  The pre-state is constructed directly:
 * read index r (symbolic multiple of 4), a ghost queue of NQ framed messages
 * with concrete sizes Q0..Q2 (8/12/16 bytes) and symbolic payloads laid out
 * from r (wrapping), write index after them, lookahead index after the first
 * LA of them.  Then one operation (OP) runs on the real ThreadLink code. */
#define private public
#include REPO_THREADLINK
#undef private
#include "nd.h"
using namespace rtosc;
#ifndef MAXMSG
#define MAXMSG 16
#endif
#ifndef NMSG
#define NMSG 2
#endif
#define RS (MAXMSG * NMSG)   /* 32 (power of two) or 36 (not) */
#define MB 32                 /* size of the message scratch buffers */
#ifndef NQ
#define NQ 0
#endif
#ifndef LA
#define LA 0
#endif
static const int QS[3] = { Q0, Q1, Q2 };
static char ghost[3][MB];
static char newmsg[MB];
static char before[RS];

static void mkmsg(char *o, int size, char name)
{
    /* "/x\0\0" "," tags "\0.." payload; size 8: no args, 12: "i", 16: "ii", 24: "iii" (tags need 8 bytes) */
    for(int j = 0; j < MB; j++) o[j] = 0;
    o[0] = '/'; o[1] = name; o[4] = ',';
    int n = size == 24 ? 3 : (size - 8) / 4;
    for(int j = 0; j < n; j++) o[5 + j] = 'i';
    for(int j = size - 4 * n; j < size; j++) o[j] = nd_char();
}

extern "C" void harness(void)
{
    ThreadLink tl(MAXMSG, NMSG);                /* real constructor */
    ringbuffer_t *ring = tl.ring;
#ifdef RFIX
    off_t r = RFIX;   /* read operations: one query per read index */
#else
    off_t r = (off_t)(nd_range(0, RS / 4 - 1) * 4);
#endif
    int total = 0, latotal = 0;
    for(int k = 0; k < NQ; k++) {
        mkmsg(ghost[k], QS[k], (char)('a' + k));
        for(int j = 0; j < QS[k]; j++) ring->buffer[(r + total + j) % RS] = ghost[k][j];
        total += QS[k];
        if(k < LA) latotal += QS[k];
    }
    /* the rest of the ring holds stale bytes */
    for(int j = total; j < RS; j++) ring->buffer[(r + j) % RS] = nd_char();
    ring->read = r; ring->write = (r + total) % RS; ring->read_lookahead = (r + latotal) % RS;
    for(int j = 0; j < RS; j++) before[j] = ring->buffer[j];
    RT_BEGIN();   /* constructed: from here on no allocation, no lock */
    const int freeb = RS - 1 - total;
    CHECK(tl.hasNext() == (NQ > 0), "C06 hasNext is false exactly when everything accepted has been consumed");
    CHECK(tl.hasNextLookahead() == (LA < NQ), "C06 lookahead hasNext is false exactly when the lookahead has seen everything");

#if OP >= 1 && OP <= 8      /* writes: OP 1..4 writeArray of 8/12/16/24 bytes, 5..8 raw_write of 8/12/16/24 bytes */
    const int size = ((OP - 1) % 4) == 3 ? 24 : 8 + 4 * ((OP - 1) % 4);
    mkmsg(newmsg, size, 'n');
#if OP <= 4
    { rtosc_arg_t a[3]; for(int j = 0; j < 3; j++) { const int b = (size == 24 ? 12 : 8) + 4 * j; a[j].i = (int32_t)(((uint32_t)(uint8_t)newmsg[b] << 24) | ((uint32_t)(uint8_t)newmsg[b + 1] << 16) | ((uint32_t)(uint8_t)newmsg[b + 2] << 8) | (uint8_t)newmsg[b + 3]); }
      tl.writeArray("/n", size == 8 ? "" : size == 12 ? "i" : size == 16 ? "ii" : "iii", a); }
#else
    tl.raw_write(newmsg);
#endif
    const bool accept = size <= MAXMSG && size <= freeb;
    CHECK((off_t)ring->read == r && (off_t)ring->read_lookahead == (r + latotal) % RS, "C06 a write never moves the read positions");
    if(accept) {
        CHECK((off_t)ring->write == (r + total + size) % RS, "C06 an accepted message is appended");
        int same = 1; for(int j = 0; j < MB; j++) if(j < size && ring->buffer[(r + total + j) % RS] != newmsg[j]) same = 0;
        CHECK(same, "C06 an accepted message is queued byte-identical");
        WITNESS("C06 write accepted");
    } else {
        CHECK((off_t)ring->write == (r + total) % RS, "C06 a message that does not fit or exceeds the maximum size is dropped whole");
        WITNESS("C06 write dropped");
    }
    { int same = 1; for(int j = 0; j < RS; j++) if(j < total && ring->buffer[(r + j) % RS] != before[(r + j) % RS]) same = 0;
      CHECK(same, "C06 a write disturbs nothing already queued"); }
#elif OP == 9              /* read */
#if NQ > 0
    const char *m = tl.read();
    { int same = 1; for(int j = 0; j < MAXMSG; j++) if(j < QS[0] && m[j] != ghost[0][j]) same = 0;
      CHECK(same, "C06 read returns the oldest accepted message byte-identical"); }
    CHECK((off_t)ring->read == (r + QS[0]) % RS, "C06 read consumes exactly one message");
    CHECK((off_t)ring->read_lookahead == (off_t)ring->read, "C06 a normal read resynchronises the lookahead position");
    CHECK((off_t)ring->write == (r + total) % RS, "C06 read does not move the write position");
    CHECK(tl.hasNext() == (NQ > 1), "C06 hasNext after read");
#endif
#elif OP == 10             /* lookahead read */
#if LA < NQ
    const char *m = tl.read_lookahead();
    { int same = 1; for(int j = 0; j < MAXMSG; j++) if(j < QS[LA] && m[j] != ghost[LA][j]) same = 0;
      CHECK(same, "C06 lookahead read returns the next message of the same sequence"); }
    CHECK((off_t)ring->read == r, "C06 lookahead read consumes nothing");
    CHECK((off_t)ring->read_lookahead == (r + latotal + QS[LA]) % RS, "C06 lookahead position advances by one message");
    CHECK(tl.hasNext() == (NQ > 0), "C06 hasNext unchanged by a lookahead read");
#endif
#endif
    RT_END();
    WITNESS("C06 end");
}
