/* C02: rtosc_bundle with a symbolic capacity.  SHAPE = decimal digits, one per
 * element: 1 = "/a" ",i" (12 bytes), 2 = "/bc" ",s" with a symbolic string of
 * exactly 2 symbolic chars (12 bytes), 4 = same with 4 chars (16 bytes), 3 = nested empty bundle (16 bytes). */
#include <rtosc/rtosc.h>
#include <string.h>
#include "nd.h"
#include "msg_ref.h"
#ifndef NEL
#define NEL 0
#endif
#define ELMAX 16
#define NEEDMAX (16 + NEL * (4 + ELMAX))
#define OBJ (NEEDMAX + 16)
static char buf[OBJ], pre[OBJ];
static unsigned char el[3][ELMAX + 4];
static unsigned elen[3];
static unsigned char ref[NEEDMAX + 8];

static unsigned mk(unsigned char *o, int kind)
{
    unsigned p = 0;
    if(kind == 1) { o[p++] = '/'; o[p++] = 'a'; p = ref_pad(o, p); o[p++] = ','; o[p++] = 'i'; p = ref_pad(o, p); p = ref_u32(o, p, nd_u32()); }
    else if(kind == 2 || kind == 4) { /* string of exactly 2 (kind 2) or 4 (kind 4) symbolic non-NUL chars: 12 / 16 bytes */
        o[p++] = '/'; o[p++] = 'b'; o[p++] = 'c'; p = ref_pad(o, p); o[p++] = ','; o[p++] = 's'; p = ref_pad(o, p);
        for(int j = 0; j < kind; j++) { char c = nd_char(); ASSUME(c != 0); o[p++] = (unsigned char)c; }
        p = ref_pad(o, p); }
    else { memcpy(o, "#bundle", 8); p = 8; p = ref_u64(o, p, nd_u64()); }
    for(unsigned j = p; j < ELMAX + 4; j++) o[j] = 0; /* rtosc_bundle measures elements with an unbounded length */
    return p;
}

void harness(void)
{
    int shape = SHAPE;
    int kinds[3] = {0, 0, 0};
    for(int k = NEL - 1; k >= 0; k--) { kinds[k] = shape % 10; shape /= 10; }
    for(int k = 0; k < NEL; k++) elen[k] = mk(el[k], kinds[k]);
    uint64_t tt = nd_u64();
    unsigned p = 0;
    memcpy(ref, "#bundle", 8); p = 8; p = ref_u64(ref, p, tt);
    for(int k = 0; k < NEL; k++) { p = ref_u32(ref, p, elen[k]); for(unsigned j = 0; j < elen[k]; j++) ref[p++] = el[k][j]; }
    const unsigned R = p;
    for(unsigned j = 0; j < OBJ; j++) { buf[j] = nd_char(); pre[j] = buf[j]; }
    size_t cap = (size_t)nd_range(0, OBJ - 8);
    ASSUME(cap <= R + 8);
#if NEL == 0
    size_t r = rtosc_bundle(buf, cap, tt, 0);
#elif NEL == 1
    size_t r = rtosc_bundle(buf, cap, tt, 1, el[0]);
#elif NEL == 2
    size_t r = rtosc_bundle(buf, cap, tt, 2, el[0], el[1]);
#else
    size_t r = rtosc_bundle(buf, cap, tt, 3, el[0], el[1], el[2]);
#endif
    if(cap < R) {
        CHECK(r == 0, "C02 bundle: returns 0 when the encoding does not fit");
        { int z = 1; for(unsigned j = 0; j < OBJ; j++) if(j < cap && buf[j] != 0) z = 0; CHECK(z, "C02 bundle: buffer left zero-filled when the encoding does not fit"); }
        WITNESS("C02 bundle does-not-fit branch");
    } else {
        CHECK(r == R, "C02 bundle: returns the exact encoded size when it fits");
        { int same = 1; for(unsigned j = 0; j < NEEDMAX; j++) if(j < R && (unsigned char)buf[j] != ref[j]) same = 0; CHECK(same, "C02 bundle: fitting bundle is the complete encoding"); }
        WITNESS("C02 bundle fits branch");
    }
    { int same = 1; for(unsigned j = 0; j < OBJ; j++) if(j >= cap && buf[j] != pre[j]) same = 0; CHECK(same, "C02 bundle: no byte at or beyond buffer+len is modified"); }
    WITNESS("C02 bundle end");
}
