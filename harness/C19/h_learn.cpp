/* C19 learn queue: one inductive step from an arbitrary valid pre-state.
 * Representation invariant (what any history of createBinding / clearSlot /
 * handleMidi establishes): the slots waiting for MIDI learn hold exactly the
 * positions 1..k, k == learn_queue_len; all other slots hold -1; a waiting
 * slot is not bound to a controller. */
#include REPO_AUTOMATIONS
#include "nd.h"
using namespace rtosc;
#ifndef NS
#define NS 3
#endif
static AutomationSlot slots[NS];
static Automation aus[NS];
static float cps[NS][4];
static AutomationMgr *mgr;

static void setup(int pre[NS], int precc[NS], int prenrpn[NS])
{
    mgr->slots = slots; mgr->nslots = NS; mgr->per_slot = 1; mgr->p = 0; mgr->damaged = 0;
    int k = 0;
    for(int i = 0; i < NS; i++) {
        slots[i].automations = &aus[i]; slots[i].current_state = 0.0f; slots[i].used = false; slots[i].active = false;
        aus[i].used = false;
        aus[i].map.control_points = cps[i]; aus[i].map.npoints = 4;
        int l = nd_i32();
        ASSUME(l == -1 || (l >= 1 && l <= NS));
        slots[i].learning = l;
        int cc = nd_i32(); ASSUME(cc >= -1 && cc < 4);
        int nr = nd_i32(); ASSUME(nr >= -1 && nr < 4);
        if(l > 0) { cc = -1; nr = -1; }
        slots[i].midi_cc = cc; slots[i].midi_nrpn = nr;
        if(l > 0) k++;
        pre[i] = l; precc[i] = cc; prenrpn[i] = nr;
    }
    for(int i = 0; i < NS; i++) for(int j = i + 1; j < NS; j++) ASSUME(pre[i] == -1 || pre[i] != pre[j]);
    for(int i = 0; i < NS; i++) ASSUME(pre[i] <= k);
    mgr->learn_queue_len = k;
}

static void check_inv(const char *what)
{
    int k2 = 0;
    for(int i = 0; i < NS; i++) if(slots[i].learning > 0) k2++;
    CHECK(mgr->learn_queue_len == k2, "C19 learn queue length equals the number of waiting slots");
    for(int i = 0; i < NS; i++) CHECK(slots[i].learning == -1 || (slots[i].learning >= 1 && slots[i].learning <= k2), "C19 waiting slots hold positions 1..k, others -1");
    for(int i = 0; i < NS; i++) for(int j = i + 1; j < NS; j++) CHECK(slots[i].learning == -1 || slots[i].learning != slots[j].learning, "C19 queue positions are distinct");
    (void)what;
}

extern "C" void harness(void)
{
    int pre[NS], precc[NS], prenrpn[NS];
    mgr = (AutomationMgr *)__builtin_alloca(sizeof(AutomationMgr));   /* state constructed directly, no initialisation code */
    setup(pre, precc, prenrpn);
#if OP == 1   /* clearSlot */
    const int c = CSLOT;   /* the cleared slot is concrete per query (one query per slot) */
    mgr->clearSlot(c);
    check_inv("clearSlot");
    CHECK(slots[c].learning == -1 && slots[c].midi_cc == -1 && slots[c].midi_nrpn == -1, "C19 cleared slot is unbound and not waiting");
    for(int i = 0; i < NS; i++) for(int j = 0; j < NS; j++)
        if(i != c && j != c && pre[i] > 0 && pre[j] > 0 && pre[i] < pre[j])
            CHECK(slots[i].learning > 0 && slots[i].learning < slots[j].learning, "C19 clearing a slot keeps the order of the other waiting slots");
    for(int i = 0; i < NS; i++) if(i != c) CHECK((slots[i].learning > 0) == (pre[i] > 0) && slots[i].midi_cc == precc[i], "C19 clearing a slot leaves other slots waiting/bound as they were");
    if(pre[c] == -1) WITNESS("C19 clear a non-waiting slot");
#elif OP == 2 /* plain controller */
    int ch = nd_i32(), cc = nd_i32(), val = nd_i32();
    ASSUME(ch >= 0 && ch < 1 && cc >= 0 && cc < 4 && val >= 0 && val < 128);
    ASSUME(cc != C_dataentryhi && cc != C_dataentrylo && cc != C_nrpnhi && cc != C_nrpnlo);
    int id = ch * 128 + cc;
    bool bound = false;
    for(int i = 0; i < NS; i++) if(precc[i] == id) bound = true;
    bool r = mgr->handleMidi(ch, cc, val);
    check_inv("handleMidi");
    if(bound) {
        CHECK(r, "C19 a bound controller is reported as handled");
        for(int i = 0; i < NS; i++) {
            CHECK(slots[i].learning == pre[i] && slots[i].midi_cc == precc[i], "C19 a bound controller changes no binding and no queue position");
            if(precc[i] == id) CHECK(slots[i].current_state == val / 127.0f, "C19 a bound controller drives its slot");
            else CHECK(slots[i].current_state == 0.0f, "C19 a bound controller drives only its slot");
        }
        WITNESS("C19 bound controller");
    } else {
        int first = -1;
        for(int i = 0; i < NS; i++) if(pre[i] == 1) first = i;
        for(int i = 0; i < NS; i++) {
            if(i == first) {
                CHECK(slots[i].midi_cc == id && slots[i].learning == -1, "C19 an unbound controller is bound to the slot that asked first");
            } else {
                CHECK(slots[i].midi_cc == precc[i], "C19 an unbound controller binds no other slot");
                CHECK(slots[i].learning == (pre[i] > 1 ? pre[i] - 1 : pre[i]), "C19 the remaining requests move up by one, in order");
            }
        }
        if(first >= 0) WITNESS("C19 learn served");
    }
#endif
    WITNESS("C19 end");
}
