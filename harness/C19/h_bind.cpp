/* C19: createBinding (with / without MIDI learn) as one inductive step from an arbitrary valid pre-state.
 * The port table is constructed directly (as in C04): one float parameter "x::f" [0,1] and one toggle "t::T:F". */
#include REPO_PORTS
#include REPO_AUTOMATIONS
#include "nd.h"
using namespace rtosc;
#ifndef NS
#define NS 3
#endif
union PortsHolder { Ports p; PortsHolder() {} ~PortsHolder() {} };
union MatcherHolder { Port_Matcher m; MatcherHolder() {} ~MatcherHolder() {} };
static PortsHolder T_H; static MatcherHolder T_M;
static Port T_ARR[] = {
    {"x::f", ":parameter\0:min\0=0\0:max\0=1\0:documentation\0=x\0", 0, [](const char *, RtData &) {}},
    {"t::T:F", ":parameter\0:documentation\0=t\0", 0, [](const char *, RtData &) {}},
    {"n::i", ":parameter\0:documentation\0=no bounds\0", 0, [](const char *, RtData &) {}},
};
template<class V, class E> static void point_vector(V &v, E *first, int n)
{ v._M_impl._M_start = first; v._M_impl._M_finish = first + n; v._M_impl._M_end_of_storage = first + n; }

static AutomationSlot slots[NS];
static Automation aus[NS];
static float cps[NS][4];

extern "C" void harness(void)
{
    VERIF_INIT();
    Ports &T = T_H.p;
    point_vector(T.ports, T_ARR, 3); T.elms = 3; T.impl = &T_M.m;
    new (&T.default_handler) std::function<void(const char *, RtData &)>();
    AutomationMgr *mgr = (AutomationMgr *)__builtin_alloca(sizeof(AutomationMgr));
    mgr->slots = slots; mgr->nslots = NS; mgr->per_slot = 1; mgr->p = &T; mgr->damaged = 0;
    int pre[NS], precc[NS]; bool preused[NS];
    int k = 0;
    for(int i = 0; i < NS; i++) {
        slots[i].automations = &aus[i]; slots[i].current_state = 0.0f; slots[i].used = false; slots[i].active = false;
        aus[i].map.control_points = cps[i]; aus[i].map.npoints = 4;
        int l = nd_i32(); ASSUME(l == -1 || (l >= 1 && l <= NS));
        int cc = nd_i32(); ASSUME(cc >= -1 && cc < 4);
        if(l > 0) cc = -1;
        slots[i].learning = l; slots[i].midi_cc = cc; slots[i].midi_nrpn = -1;
        aus[i].used = nd_bool();
        if(l > 0) k++;
        pre[i] = l; precc[i] = cc; preused[i] = aus[i].used;
    }
    for(int i = 0; i < NS; i++) for(int j = i + 1; j < NS; j++) ASSUME(pre[i] == -1 || pre[i] != pre[j]);
    for(int i = 0; i < NS; i++) ASSUME(pre[i] <= k);
    mgr->learn_queue_len = k;
    const int c = CSLOT;
    const bool learn = LEARN;
    mgr->createBinding(c, PATH, learn);
    /* invariant */
    int k2 = 0; for(int i = 0; i < NS; i++) if(slots[i].learning > 0) k2++;
    CHECK(mgr->learn_queue_len == k2, "C19 learn queue length equals the number of waiting slots");
    for(int i = 0; i < NS; i++) CHECK(slots[i].learning == -1 || (slots[i].learning >= 1 && slots[i].learning <= k2), "C19 waiting slots hold positions 1..k, others -1");
    for(int i = 0; i < NS; i++) for(int j = i + 1; j < NS; j++) CHECK(slots[i].learning == -1 || slots[i].learning != slots[j].learning, "C19 queue positions are distinct");
    for(int i = 0; i < NS; i++) if(i != c) CHECK(slots[i].learning == pre[i] && slots[i].midi_cc == precc[i] && aus[i].used == preused[i], "C19 creating a binding leaves other slots as they were");
#if BINDABLE
    if(!preused[c]) {
        CHECK(aus[c].used && aus[c].param_type == PTYPE, "C19 the binding records the parameter's type");
        CHECK(aus[c].param_path[0] == '/' && aus[c].param_path[1] == PATH[1] && aus[c].param_path[2] == 0, "C19 the binding records the parameter's address");
        CHECK(aus[c].param_min == 0.0f && aus[c].param_max == 1.0f, "C19 the binding records the declared range");
        bool asks = learn && pre[c] == -1 && precc[c] == -1;
        CHECK(slots[c].learning == (asks ? k + 1 : pre[c]), "C19 a learn request joins the end of the queue (once), other bindings do not touch it");
        if(asks) WITNESS("C19 learn requested");
    } else
        CHECK(slots[c].learning == pre[c], "C19 a full slot is left alone");
#else
    CHECK(aus[c].used == preused[c] && slots[c].learning == pre[c], "C19 a parameter without declared bounds is not bound");
#endif
    WITNESS("C19 end");
}
