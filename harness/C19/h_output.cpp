/* C19 output: value emitted by a slot for a bound parameter.  Declared range
 * and type are concrete (PMIN, PMAX, PTYPE), slot values symbolic. */
#include REPO_AUTOMATIONS
#include "nd.h"
#include "shim.h"
using namespace rtosc;
static AutomationSlot slots[1];
static Automation au;
static float cp[4];
static char last[2][64];
static int nmsg;
static void backend(const char *m) { if(nmsg < 2) for(int j = 0; j < 64; j++) last[nmsg][j] = m[j]; nmsg++; }

extern "C" void harness(void)
{
    AutomationMgr *m = (AutomationMgr *)__builtin_alloca(sizeof(AutomationMgr));   /* state constructed directly */
    m->slots = slots; m->nslots = 1; m->per_slot = 1; m->p = 0; m->damaged = 0; m->learn_queue_len = 0;
    new (&m->backend) std::function<void(const char *)>();
    slots[0].current_state = 0.0f; au.relative = false;
    slots[0].automations = &au; slots[0].learning = -1; slots[0].midi_cc = -1; slots[0].midi_nrpn = -1;
    au.used = true; au.active = true; au.param_type = PTYPE; au.map.control_points = cp; au.map.npoints = 4; au.map.control_scale = 0;
    au.param_path[0] = '/'; au.param_path[1] = 'x'; au.param_path[2] = 0;
    const float mn = PMIN, mx = PMAX;
    au.param_min = mn; au.param_max = mx;
#ifdef SYMGAIN
    float gain = nd_float(), off = nd_float();
    ASSUME(gain > 0.0f && gain <= 200.0f && off >= -100.0f && off <= 100.0f);
    m->setSlotSubGain(0, 0, gain); m->setSlotSubOffset(0, 0, off);
#else
    m->setSlotSubGain(0, 0, 100.0f); m->setSlotSubOffset(0, 0, 0.0f);
#endif
    m->updateMapping(0, 0);
    m->backend = backend;
    float v1 = nd_float(), v2 = nd_float();
    ASSUME(v1 >= -2.0f && v1 <= v2 && v2 <= 3.0f);
    nmsg = 0;
    m->setSlot(0, v1);
    m->setSlot(0, v2);
    CHECK(nmsg == 2, "C19 every slot value produces exactly one message per bound parameter");
    for(int k = 0; k < 2; k++) {
        CHECK(last[k][0] == '/' && last[k][1] == 'x' && last[k][2] == 0, "C19 message goes to the bound parameter's address");
    }
    if(PTYPE == 'f') {
        CHECK(rtosc_type(last[0], 0) == 'f' && rtosc_type(last[1], 0) == 'f', "C19 message carries the parameter's type");
        float o1 = v_arg_f(last[0], 0), o2 = v_arg_f(last[1], 0);
        CHECK(o1 >= mn && o1 <= mx && o2 >= mn && o2 <= mx, "C19 emitted value inside the declared [min,max]");
        CHECK(o1 <= o2, "C19 emitted value never decreases when the slot value increases");
#ifndef SYMGAIN
        if(v1 == 0.0f) CHECK(o1 == mn, "C19 default mapping: slot value 0 gives min");
        if(v2 == 1.0f) CHECK(o2 == mx, "C19 default mapping: slot value 1 gives max");
#endif
    } else if(PTYPE == 'i') {
        CHECK(rtosc_type(last[0], 0) == 'i' && rtosc_type(last[1], 0) == 'i', "C19 message carries the parameter's type");
        int o1 = v_arg_i(last[0], 0), o2 = v_arg_i(last[1], 0);
        CHECK(o1 >= (int)mn && o1 <= (int)mx && o2 >= (int)mn && o2 <= (int)mx, "C19 emitted value inside the declared [min,max]");
        CHECK(o1 <= o2, "C19 emitted value never decreases when the slot value increases");
#ifndef SYMGAIN
        if(v1 == 0.0f) CHECK(o1 == (int)mn, "C19 default mapping: slot value 0 gives min");
        if(v2 == 1.0f) CHECK(o2 == (int)mx, "C19 default mapping: slot value 1 gives max");
#endif
    } else {
        char t1 = rtosc_type(last[0], 0), t2 = rtosc_type(last[1], 0);
        CHECK((t1 == 'T' || t1 == 'F') && (t2 == 'T' || t2 == 'F'), "C19 toggles emit true/false");
        CHECK(!(t1 == 'T' && t2 == 'F'), "C19 toggle output never decreases when the slot value increases");
    }
    WITNESS("C19 end");
}
