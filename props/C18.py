"""C18 path utilities -- Ports::collapsePath via the IR route (src/cpp/ports.cpp)"""
import itertools
import os
import random
import vlib


def text(shape, repo):
    """shape: list of 'D' ('..') or 1/2 (ordinary component of that many symbolic chars)"""
    fill, pos = [], 0
    comps = []   # (kind, start, len)
    for c in shape:
        fill.append("buf[%d] = '/';" % pos); pos += 1
        if c == "D":
            fill.append("buf[%d] = '.'; buf[%d] = '.';" % (pos, pos + 1))
            comps.append(("D", pos, 2)); pos += 2
        else:
            for j in range(c):
                fill.append("{ char ch = nd_char(); ASSUME(ch != 0 && ch != '/'%s); buf[%d] = ch; }" % (" && ch != '.'" if c <= 2 and j == 0 else "", pos + j))
            comps.append(("N", pos, c)); pos += c
    n = pos
    # reference: stack of ordinary components
    st = []
    for k, s, l in comps:
        if k == "D":
            if st:
                st.pop()
        else:
            st.append((s, l))
    exp = []   # list of source positions or '/' literal
    for s, l in st:
        exp.append("/")
        exp += list(range(s, s + l))
    T = ['#include "%s/src/cpp/ports.cpp"' % repo, '#include "nd.h"', "using namespace rtosc;",
         "static char big[%d]; static char orig[%d];" % (n + 1 + 4, n + 1), 'extern "C" void harness(void)\n{',
         "    char *buf = big + 4; /* the code forms buf-1: keep the logical buffer inside a larger object */",
         "    for(int j = 0; j < 4; j++) big[j] = nd_char();", "    char g0 = big[0], g1 = big[1], g2 = big[2], g3 = big[3];"]
    T += ["    " + f for f in fill]
    T.append("    buf[%d] = 0;" % n)
    T.append("    for(int j = 0; j <= %d; j++) orig[j] = buf[j];" % n)
    T.append("    char *r = Ports::collapsePath(buf);")
    T.append('    CHECK(r >= buf && r <= buf + %d, "C18 collapsePath returns a pointer inside the same buffer");' % n)
    T.append('    CHECK(r == buf + %d, "C18 collapsed path has the expected length and ends at the original terminator");' % (n - len(exp)))
    T.append('    CHECK(buf[%d] == 0, "C18 terminator untouched");' % n)
    for i, e in enumerate(exp):
        if e == "/":
            T.append('    CHECK(r[%d] == \'/\', "C18 collapsed path: separators in place");' % i)
        else:
            T.append('    CHECK(r[%d] == orig[%d], "C18 collapsed path: surviving components unchanged and in order");' % (i, e))
    T.append('    CHECK(big[0] == g0 && big[1] == g1 && big[2] == g2 && big[3] == g3, "C18 nothing before the buffer is written");')
    T.append('    WITNESS("C18 end");\n}')
    return "\n".join(T) + "\n", n


def build(ctx):
    thorough = ctx.tier == "thorough"
    rnd = random.Random(ctx.seed)
    ctx.units = ["src/cpp/ports.cpp (Ports::collapsePath, parent_path_p, read_path, move_path) via LLVM IR"]
    ctx.functions = ["Ports::collapsePath", "parent_path_p", "read_path", "move_path"]
    alpha = ["D", 1, 2]
    # exhaustive: all structures of 1..3 components over {'..', 1-char, 2-char name}, and of 4..6 (7) components
    # over {'..', 1-char name} (the collapsing logic depends on the component kinds, not on name lengths)
    shapes = [list(s) for n in (1, 2, 3) for s in itertools.product(alpha, repeat=n)]
    shapes += [list(s) for n in ((4, 5, 6) if not thorough else (4, 5, 6, 7)) for s in itertools.product(["D", 1], repeat=n)]
    if thorough:
        more = [list(s) for s in itertools.product(alpha + [3], repeat=4)] + [list(s) for s in itertools.product(alpha, repeat=5)]
        rnd.shuffle(more)
        shapes += more[:150]
    seen = set()
    shapes = [s for s in shapes if not (tuple(s) in seen or seen.add(tuple(s)))]
    rt = [os.path.join(vlib.STUBS, "cxxrt.c"), os.path.join(vlib.STUBS, "nd_cbmc.c"), os.path.join(vlib.STUBS, "libc_extra.c")]
    for i, sh in enumerate(shapes):
        t, n = text(sh, vlib.REPO)
        name = "c%03d_%s" % (i, "".join(str(x) for x in sh))
        h = ctx.write("gen/%s.cpp" % name, t)
        q = ctx.add(vlib.Query(name, ["@IR@"] + rt, unwind=n + 4, objbits=12, native_sources=[h], native_cxx=True, native_lib_exclude=["ports.cpp"],
                               descr={"path": "/" + "/".join(".." if x == "D" else "x" * x for x in sh), "component bytes": "symbolic (not NUL, not '/', a short name does not start with '.')"}))
        q.prepare = (lambda name_, h_: (lambda q_: q_.sources.__setitem__(0, ctx.ir_translate(name_, h_, cxx=True))))(name, h)
    ctx.bounds = {"components": "exhaustive: 1..3 over {'..', 1-char, 2-char name}; 4..6 (7 thorough) over {'..', 1-char name}; thorough adds 150 sampled structures with longer names", "name bytes": "every byte except NUL and '/'"}
    ctx.assumptions = ["absolute, well-formed paths: '/' component ('/' component)*, no empty components, no trailing '/'",
                       "an ordinary component is not '..' (1- and 2-char names do not start with '.')"]
    ctx.stubs = ["C++ runtime: stubs/cxxrt.c"]
    ctx.outside = ["Ports::apropos / operator[] / path_search over port tables: claimed under C04's table harnesses only as far as listed there",
                   "paths with more than 8 components"]
