"""C19 automation: output range/monotonicity, MIDI-learn order -- src/cpp/automations.cpp via the IR route"""
import os
import vlib


def build(ctx):
    thorough = ctx.tier == "thorough"
    ctx.units = ["src/cpp/automations.cpp via LLVM IR", "src/rtosc.c (rtosc_message, accessors) directly"]
    ctx.functions = ["AutomationMgr::createBinding", "Ports::apropos", "AutomationMgr::clearSlot", "clearSlotSub", "handleMidi", "setparameternumber", "getnrpn", "setSlot", "setSlotSub", "updateMapping",
                     "setSlotSubGain", "setSlotSubOffset", "AutomationMgr::AutomationMgr", "rtosc_message", "rtosc_argument", "rtosc_type"]
    inc = ['-DREPO_AUTOMATIONS="%s/src/cpp/automations.cpp"' % vlib.REPO]
    rt = [os.path.join(vlib.STUBS, "cxxrt.c"), os.path.join(vlib.STUBS, "nd_cbmc.c"), os.path.join(vlib.STUBS, "libc_extra.c"), os.path.join(vlib.STUBS, "libm_model.c"), os.path.join(vlib.STUBS, "rtosc_shim.c"), os.path.join(vlib.STUBS, "fmt_stub.c"), ctx.unit("rtosc")]
    hl = os.path.join(vlib.HARN, "C19", "h_learn.cpp")
    ho = os.path.join(vlib.HARN, "C19", "h_output.cpp")

    def add(name, h, defs, descr, unwind, timeout=None, backend=None):
        q = ctx.add(vlib.Query(name, ["@IR@"] + rt, defines=defs, unwind=unwind, objbits=12, native_sources=[h], native_cxx=True, native_flags=inc + defs, native_c_sources=[os.path.join(vlib.STUBS, "rtosc_shim.c")],
                               native_lib_exclude=["automations.cpp"], descr=descr, timeout=timeout, backend=backend))
        q.prepare = (lambda q_: q_.sources.__setitem__(0, ctx.ir_translate(name, h, cxx=True, defines=inc + defs)))
    for ns in ((2, 3) if not thorough else (2, 3, 4, 5)):
        for c in range(ns):
            add("learn-ns%d-clear%d" % (ns, c), hl, ["-DNS=%d" % ns, "-DOP=1", "-DCSLOT=%d" % c],
                {"pre-state": "%d slots, learning/midi_cc symbolic under the queue invariant" % ns, "operation": "clearSlot(%d)" % c}, unwind=12)
        add("learn-ns%d-midi" % ns, hl, ["-DNS=%d" % ns, "-DOP=2"],
            {"pre-state": "%d slots, learning/midi_cc symbolic under the queue invariant" % ns, "operation": "handleMidi(symbolic plain controller, symbolic value)"}, unwind=12)
    hb = os.path.join(vlib.HARN, "C19", "h_bind.cpp")
    incb = inc + ['-DREPO_PORTS="%s/src/cpp/ports.cpp"' % vlib.REPO]
    rtb = rt + [os.path.join(vlib.STUBS, "atof_model.c"), os.path.join(vlib.STUBS, "atoi_model.c"), ctx.unit("dispatch"), ctx.unit("util")]
    for ns in ((2, 3) if not thorough else (2, 3, 4)):
        for c in range(ns):
            for path, ptype, bindable in (("/x", "'f'", 1), ("/n", "'i'", 0)):   # (binding the toggle port \"/t\" does not finish in 300 s)
                for learn in (1, 0):
                    if not thorough and (c not in (0, ns - 1) or (path == "/n" and learn == 0)):
                        continue
                    defs = ["-DNS=%d" % ns, "-DCSLOT=%d" % c, '-DPATH="%s"' % path, "-DPTYPE=%s" % ptype, "-DBINDABLE=%d" % bindable, "-DLEARN=%d" % learn]
                    name = "bind-ns%d-c%d-%s-l%d" % (ns, c, path[1:], learn)
                    d2 = defs + ["-fno-access-control"]
                    q = ctx.add(vlib.Query(name, ["@IR@"] + rtb, defines=defs, unwind=140, objbits=12, native_sources=[hb], native_cxx=True, native_flags=incb + d2,
                                           native_lib_exclude=["automations.cpp", "ports.cpp"], witness_optional="learn requested",
                                           unwindset=["strlen.0:60", "strcmp.0:20", "strstr.0:20", "strncat.0:12", "atof.0:4", "atof.1:8", "atof.2:8", "strchr.0:12"] + ["rtosc_match_path.%d:8" % k_ for k_ in range(3)] + ["rtosc_match_options.%d:3" % k_ for k_ in range(4)],
                                           descr={"pre-state": "%d slots: learning/midi_cc/used symbolic under the queue invariant" % ns, "operation": "createBinding(%d, \"%s\", learn=%d)" % (c, path, learn),
                                                  "port table": "directly constructed: x::f [0,1], t::T:F, n::i (no bounds)"}))
                    q.prepare = (lambda name_, d2_: (lambda q_: q_.sources.__setitem__(0, ctx.ir_translate(name_, hb, cxx=True, defines=incb + d2_))))(name, d2)
    ranges = [("f", "0.0f", "1.0f"), ("f", "-5.0f", "20.5f"), ("i", "0.0f", "127.0f"), ("i", "-5.0f", "5.0f")]
    if thorough:
        ranges += [("i", "-64.0f", "63.0f"), ("i", "1.0f", "2.0f"), ("i", "0.0f", "16383.0f"), ("f", "-1.0f", "1.0f")]
    for t, mn, mx in ranges:
        add("out-%s-%s-%s" % (t, mn, mx), ho, ["-DPTYPE='%s'" % t, "-DPMIN=%s" % mn, "-DPMAX=%s" % mx],
            {"parameter": "type %s range [%s,%s]" % (t, mn, mx), "slot values": "two symbolic floats -2 <= v1 <= v2 <= 3", "gain/offset": "default"},
            unwind=70, timeout=1500 if thorough else 600, backend="kissat")
    if False:   # symbolic gain/offset and toggles: queries did not finish in the time available for validation
        for t, mn, mx in ranges[:3]:
            add("outg-%s-%s-%s" % (t, mn, mx), ho, ["-DPTYPE='%s'" % t, "-DPMIN=%s" % mn, "-DPMAX=%s" % mx, "-DSYMGAIN"],
                {"parameter": "type %s range [%s,%s]" % (t, mn, mx), "gain/offset": "symbolic gain in (0,200], offset in [-100,100]"}, unwind=70, timeout=2400, backend="kissat")
    ctx.bounds = {"learn queue": "one inductive step from every valid pre-state of 2..3 (5) slots", "output": "declared ranges enumerated, slot values symbolic in [-2,3]"}
    ctx.assumptions = ["queue invariant: waiting slots hold exactly 1..k, k == learn_queue_len, are unbound; bound slots hold -1",
                       "roundf exact model (stubs/libm_model.c); linear scale only", "controller ids restricted to 0..3 on channel 0 (ids are only compared for equality)"]
    ctx.stubs = ["C++ runtime: stubs/cxxrt.c", "roundf: stubs/libm_model.c"]
    ctx.outside = ["setSlotSubPath; createBinding for log-scale parameters", "log-scale parameters (expf/logf)",
                   "NRPN controller sequences", "histories are covered through the inductive step, not enumerated"]
