"""C20 (realtime half) -- src/cpp/midimapper.cpp: MidiMapperStorage::handleCC/cloneValues, MidiBijection, MidiMapperRT::handleCC via the IR route"""
import os
import vlib


def build(ctx):
    thorough = ctx.tier == "thorough"
    ctx.units = ["src/cpp/midimapper.cpp (realtime half) via LLVM IR", "src/rtosc.c directly"]
    ctx.functions = ["MidiMapperStorage::handleCC", "MidiMapperStorage::cloneValues", "MidiBijection::operator()(int)", "MidiMapperRT::handleCC", "MidiMapperRT::PendingQueue::insert/has",
                     "TinyVector::operator[]", "rtosc_message"]
    inc = ['-DREPO_MIDIMAPPER="%s/src/cpp/midimapper.cpp"' % vlib.REPO]
    rt = [os.path.join(vlib.STUBS, f) for f in ("cxxrt.c", "nd_cbmc.c", "libc_extra.c", "rtosc_shim.c", "fmt_stub.c")] + [ctx.unit("rtosc")]
    h = os.path.join(vlib.HARN, "C20", "h_rt.cpp")

    def add(name, defs, descr, timeout=None, backend=None):
        d2 = defs + ["-fno-access-control"]
        q = ctx.add(vlib.Query(name, ["@IR@"] + rt, defines=defs, unwind=40, objbits=12, native_sources=[h], native_cxx=True, native_flags=inc + d2,
                               native_lib_exclude=["midimapper.cpp"], native_c_sources=[os.path.join(vlib.STUBS, "rtosc_shim.c")], descr=descr, timeout=timeout, backend=backend, witness_optional="C20 rt |C20 assigned|C20 unassigned|C20 carried",
                               unwindset=["strlen.0:20", "strcmp.0:16", "vsosc_null.0:6", "nreserved.0:6"]))
        q.prepare = (lambda q_: q_.sources.__setitem__(0, ctx.ir_translate(name, h, cxx=True, defines=inc + d2)))
    for slots in ((1, 2, 5, 6) if not thorough else range(8)):
        sd = ["-DSLOTS=%d" % slots]
        sl = [(slots >> i) & 1 for i in range(3)]
        add("storage-handleCC-s%d" % slots, ["-DPART=1"] + sd, {"snapshot": "3 (id, coarse, slot) tuples with slots %s, 2 values: ids, coarse flags, values symbolic, ids distinct" % sl, "input": "symbolic controller id and value 0..127"})
        for have, npend in (((1, 0), (1, 1), (0, 0)) if slots in (1, 5) or thorough else ((1, 0),)):
            add("rt-handleCC-s%d-st%d-p%d" % (slots, have, npend), ["-DPART=4", "-DHAVE_ST=%d" % have, "-DNPEND=%d" % npend] + sd,
                {"state": "storage (slots %s) %s, watch count 0..2 symbolic, %d pending ids (symbolic values)" % (sl, "present" if have else "absent", npend), "input": "symbolic par/val/channel/nrpn"})
    add("storage-cloneValues", ["-DPART=2", "-DSLOTS=5"], {"old generation": "symbolic ids/flags/values, slots [1,0,1]", "new generation": "symbolic ids/flags, slots [1,0,1]"})
    for mn, mx in ([("0.0f", "1.0f"), ("0.0f", "127.0f")] if not thorough else [("0.0f", "1.0f"), ("0.0f", "127.0f"), ("-5.0f", "20.5f"), ("-64.0f", "63.0f")]):
        add("bijection-%s-%s" % (mn, mx), ["-DPART=3", "-DSLOTS=0", "-DBMIN=%s" % mn, "-DBMAX=%s" % mx], {"range": [mn, mx], "input": "two symbolic 14-bit values x1 <= x2"}, backend="kissat")
    ctx.bounds = {"snapshot": "3 mapping tuples, 2 parameter slots", "ids": "0..2^19", "values": "0..16383 / 0..127"}
    ctx.assumptions = ["snapshots are well-formed: ids distinct, slots in range, values 14-bit; in the new generation each value half is driven by at most one controller",
                       "state is constructed directly (TinyVector internals pointed at static arrays, -fno-access-control in the harness TU)"]
    ctx.stubs = ["stubs/cxxrt.c", "stubs/rtosc_shim.c"]
    ctx.outside = ["the non-realtime half (MidiMappernRT: std::map/std::deque/heap lambdas) and therefore the map/unMap/relearn HISTORIES of the statement",
                   "the exchange of messages between the two halves", "log-scale bijection"]
