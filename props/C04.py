"""C04 dispatch delivers a message to exactly the port it addresses -- Ports::dispatch (src/cpp/ports.cpp) via the IR route,
over directly constructed tables (the hash vectors come from a native run of the real search)."""
import os
import vlib

TABLES = {
    # name: (root names, index of subtree port in root or -1, sub names)
    "hashA": (["a::i", "ab::i", "ba:", "abc::i:f", "sub/"], 4, ["x::i", "xy::i", "z"]),
    "enumB": (["a::i", "c#2::i", "ca::i", "s#2/"], 3, ["x::i", "y#3::i"]),
    "hashC": (["vol::i", "pan::i", "pa:", "fx/"], 3, ["on::T:F", "mix::f", "m#10::i"]),
    "linD": (["a", "a::i", "b#1", "b0::i"], -1, ["q"]),
}


def table_inc(root, subidx, sub, hashed_text):
    L = []
    nrec = 0
    L.append("static Port SUB_ARR[] = {")
    for j, n in enumerate(sub):
        L.append('  {"%s", ":doc\\0=x\\0", 0, LEAF(%d)},' % (n, len(root) + j))
    L.append("};")
    L.append("#define SUB_OFF 16")
    L.append("static Port ROOT_ARR[] = {")
    for i, n in enumerate(root):
        if i == subidx:
            L.append('  {"%s", ":doc\\0=x\\0", &SUB, SUBTREE(%d, SUB, SUB_OFF)},' % (n, i))
        else:
            L.append('  {"%s", ":doc\\0=x\\0", 0, LEAF(%d)},' % (n, i))
    L.append("};")
    L.append("#define NROOT %d\n#define NSUB %d\n#define ROOT_SUBIDX %d" % (len(root), len(sub), subidx))
    L.append(hashed_text)
    return "\n".join(L) + "\n"


def build(ctx):
    thorough = ctx.tier == "thorough"
    ctx.units = ["src/cpp/ports.cpp (Ports::dispatch, Port_Matcher::hard_match/rtosc_match_args, scat) via LLVM IR", "src/dispatch.c, src/rtosc.c directly"]
    ctx.functions = ["Ports::dispatch (no-location, linear, hashed and default-handler branches)", "Port_Matcher::hard_match", "Port_Matcher::rtosc_match_args", "scat",
                     "rtosc_match", "rtosc_match_path", "rtosc_match_number", "rtosc_match_args", "rtosc_argument_string", "SNIP (port-sugar.h recursion idiom)"]
    inc = ['-DREPO_PORTS="%s/src/cpp/ports.cpp"' % vlib.REPO]
    rt = [os.path.join(vlib.STUBS, f) for f in ("cxxrt.c", "nd_cbmc.c", "libc_extra.c", "fmt_stub.c", "atoi_model.c")] + [ctx.unit("rtosc"), ctx.unit("dispatch")]
    h = os.path.join(vlib.HARN, "C04", "h_dispatch.cpp")
    hd = os.path.join(vlib.HARN, "C04", "hashdump.cpp")
    for tname, (root, subidx, sub) in TABLES.items():
        # native run of the real perfect-hash search on the same names (root table and sub-table)
        def hashdump(names, prefix):
            ninc = ctx.write("gen/%s_%s_names.h" % (tname, prefix), "static const char *NAMES[] = {%s};\n#define NPORTS %d\n" % (", ".join('"%s"' % n for n in names), len(names)))
            exe = ctx.wpath("gen", "%s_%s_hashdump" % (tname, prefix))
            rc, out, *_ = vlib.sh(["g++", "-std=c++17", "-O0", "-w", "-fno-access-control", "-DNDEBUG", "-I" + os.path.join(vlib.REPO, "include"), "-I" + os.path.join(vlib.REPO, "src/cpp"),
                                   '-DREPO_PORTS="%s/src/cpp/ports.cpp"' % vlib.REPO, '-DTABLE_INC="%s"' % ninc, '-DPREFIX="%s"' % prefix, hd] + ctx.native_lib(("ports.cpp",)) + ["-fsanitize=address", "-o", exe], timeout=600)
            if rc != 0:
                ctx.broken.append("hashdump build failed for %s/%s: %s" % (tname, prefix, out[-800:]))
                return False, ""
            rc, dump, *_ = vlib.sh([exe], timeout=60, env=dict(os.environ, ASAN_OPTIONS="detect_leaks=0"))
            ok = ("#define %s_NPOS 0\n" % prefix) not in dump and rc == 0 and ("%s_NPOS" % prefix) in dump
            return ok, dump
        hashed, dump = hashdump(root, "H")
        hashed_sub, dump_s = hashdump(sub, "S")
        htext = (dump if hashed else "") + (dump_s if hashed_sub else "") + "#define HASHED_ROOT %d\n#define HASHED_SUB %d\n" % (1 if hashed else 0, 1 if hashed_sub else 0)
        tinc = ctx.write("gen/%s_table.h" % tname, table_inc(root, subidx, sub, htext))
        # address templates derived from the table: every full path with one position replaced by / one position
        # given an extra / one position losing a character; the replaced or inserted byte is SYMBOLIC (1..126)
        def expand(name):
            base = name.split(":")[0]
            if "#" in base:
                pre, rest = base.split("#", 1)
                digits = "".join(c for c in rest if c.isdigit())
                tail = rest[len(digits):]
                n = int(digits)
                return [pre + str(v) + tail for v in sorted(set([0, max(n - 1, 0), n]))]
            return [base]
        def alts(name):
            return name.split(":")[1:] if ":" in name else None
        paths = []     # (path, type alternatives of the leaf or None)
        for i_, n_ in enumerate(root):
            for r_ in expand(n_):
                if i_ == subidx:
                    for s_ in sub:
                        paths += [(r_ + x, alts(s_)) for x in expand(s_)]
                    paths.append((r_, None))
                else:
                    paths.append((r_, alts(n_)))
        templates = []
        for pth, al in paths:
            L_ = len(pth)
            templates.append((pth, 0, "", al))                                    # exact
            for k_ in range(L_ + 1):
                templates.append((pth[:k_], 1, pth[k_ + 1:], al))                    # one character changed (k == L: appended)
            for k_ in sorted(set([0, L_ // 2])):
                templates.append((pth[:k_], 1, pth[k_:], al))                        # one character inserted
            for k_ in range(L_):
                templates.append((pth[:k_], 0, pth[k_ + 1:], al))                    # one character removed
        seen_t = set()
        templates = [t_ for t_ in templates if not (t_[:3] in seen_t or seen_t.add(t_[:3])) and len(t_[0]) + t_[1] + len(t_[2]) <= 24]
        if thorough:
            templates = templates[::2] if len(templates) > 120 else templates
        else:
            templates = templates[::3] if len(templates) > 60 else templates[::2]
            if any("#" in n_ for n_ in root + sub):
                templates = templates[::2]
        LB = max(len(t_[0]) + t_[1] + len(t_[2]) for t_ in templates) + 4
        tagsets = ["i", "", "s"] if not thorough else ["i", "", "s", "f", "T", "ii"]
        all_alts = [alts(n_) for n_ in root + sub]
        def usable(tags):
            # a type string that merely extends an alternative of ANY port of the table is left unconstrained by the
            # statement (the harness assumes such messages away); do not generate queries that would be vacuous
            for al in all_alts:
                if al is not None and tags not in al and any(tags.startswith(a_) for a_ in al):
                    return False
            return True
        tagsets = [t_ for t_ in tagsets if usable(t_)]
        seen_names = set()
        alphabet = sorted(set(c for n_ in root + sub for c in n_.split(":")[0] if c not in "#")) + ["q", "0", "9"]
        for ti, (pre0, sym0, post, al) in enumerate(templates):
            for loc, tags, dflt in [(1, tagsets[ti % len(tagsets)], 1 if (hashed and ti % 3 == 0) else 0), (0, tagsets[ti % len(tagsets)], 0)]:
                # hashed lookup with a location buffer: a symbolic byte makes the hash, hence the port index and the callback
                # pointer, symbolic (does not finish); there the byte is enumerated over the table's alphabet plus 3 foreign chars
                # tables with #N ports: a symbolic byte that may become a digit or complete another port's name next to an
                # index does not finish; there the byte is enumerated over the table alphabet plus digits and foreign chars
                numeric = any("#" in n_ for n_ in root + sub)
                if sym0 and hashed and loc:
                    variants = [(pre0 + ch, 0) for ch in (alphabet[ti % 2::2] + ["q"] if thorough else [alphabet[ti % (len(alphabet) - 3)], "q", "0"])]
                elif sym0 and subidx >= 0 and "/" not in pre0:
                    # byte inside the ROOT component of a table with a sub-tree: symbolic, it may complete the sub-tree
                    # port's name and drag the whole second level into every path (260..450 s); enumerate it instead
                    variants = [(pre0 + ch, 0) for ch in sorted(set(["q", "0", "/"] + (alphabet if thorough else alphabet[::2])))]
                elif sym0 and numeric:
                    variants = [(pre0 + ch, 0) for ch in sorted(set(["0", "1", "9", "q", "/"] + alphabet if thorough else ["0", "2", "q", alphabet[ti % (len(alphabet) - 3)], alphabet[(ti + 2) % (len(alphabet) - 3)]]))]
                else:
                    variants = [(pre0, sym0)]
                for pre, sym in variants:
                    defs = ["-DLOC=%d" % loc, '-DTAGS="%s"' % tags, "-DWITH_DEFAULT=%d" % dflt, '-DTABLE_INC="%s"' % tinc, '-DADDR_PRE="%s"' % pre, "-DADDR_SYM=%d" % sym,
                            '-DADDR_POST="%s"' % post, "-fno-access-control"]
                    name = "%s-%s%s%s-loc%d-t%s-d%d" % (tname, pre.replace("/", "_"), "@" if sym else "~", post.replace("/", "_"), loc, tags or "none", dflt)
                    if name in seen_names:
                        continue
                    seen_names.add(name)
                    q = ctx.add(vlib.Query(name, ["@IR@"] + rt, defines=[d_ for d_ in defs if d_ != "-fno-access-control"], unwind=max(34, LB + 24), objbits=12,
                                           native_sources=[h], native_cxx=True, native_flags=inc + defs, native_lib_exclude=["ports.cpp"],
                                           unwindset=["rtosc_match_path.%d:%d" % (k, max(14, LB)) for k in range(3)] + ["rtosc_match_number.%d:14" % k for k in range(2)] + ["rtosc_match_options.%d:3" % k for k in range(4)] + ["atoi.0:3", "atoi.1:14", "rtosc_match_args.0:5",
                                                      "_ZN5rtosc12Port_Matcher16rtosc_match_argsEPKcS2_.0:8", "_ZN5rtosc12Port_Matcher16rtosc_match_argsEPKcS2_:5",
                                                      "rtosc_argument_string.0:%d" % max(16, LB + 2), "rtosc_argument_string.1:16", "strncmp.0:%d" % max(10, LB),
                                                      "strlen.0:3", "vsosc_null.0:3", "nreserved.0:3"] + ["rtosc_amessage.%d:3" % k_ for k_ in range(6)],
                                           witness_optional="a leaf was reached",
                                           descr={"table": {"root": root, "subtree": sub, "lookup": "perfect hash (vectors from the real search)" if hashed else "linear (enumerated / no hash)", "sub-table lookup": "perfect hash" if hashed_sub else "linear"},
                                                  "address": "/" + pre + ("<any byte 1..126>" if sym else "") + post, "location buffer": bool(loc), "type tags": tags, "default handler": bool(dflt)}))
                    q.prepare = (lambda name_, defs_: (lambda q_: q_.sources.__setitem__(0, ctx.ir_translate(name_, h, cxx=True, defines=inc + defs_))))(name, defs)
    ctx.bounds = {"tables": "4 two-level tables (hashed with sub-tree, enumerated with #N sub-tree, hashed with mixed specs, linear with duplicate names)", "address": "every full path of the table with one position replaced by any byte 1..126, one byte inserted, or one character removed (plus the exact paths)",
                  "type tags": "concrete: i, empty, s (+ f, T, ii thorough)"}
    ctx.assumptions = ["tables are constructed directly: static Port arrays, vector internals of an empty-constructed Ports pointed at them, hash vectors taken from a native run of the real refreshMagic on the same names",
                       "address bytes are 7-bit, non-zero, below 127 (the hashed branch indexes a 127-entry table with the message byte)",
                       "messages whose type string only extends an alternative are excluded (unconstrained by the statement)",
                       "sub-tree callbacks follow the rRecurCb idiom (record, adjust d.obj, SNIP, dispatch)"]
    ctx.stubs = ["stubs/cxxrt.c", "stubs/atoi_model.c"]
    ctx.outside = ["the Ports constructor and the perfect-hash search themselves (run natively only)", "tables other than the four generated ones, three levels", "addresses further than one edit from a table path"]
