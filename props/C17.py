"""C17 port metadata read back exactly -- src/cpp/ports.cpp through the IR route (clang -O1 -> ll2c -> cbmc)"""
import itertools
import os
import random
import vlib


def text(entries, repo):
    """entries: list of (keylen, has_value, vallen)"""
    off = 0
    lay = []
    fill = []
    off = 1  # leading ':'
    first = True
    blk = []
    pos = 0
    for i, (kl, hv, vl) in enumerate(entries):
        blk.append("blk[%d] = ':';" % pos); pos += 1
        k0 = pos
        for j in range(kl):
            blk.append("{ char c = nd_char(); ASSUME(c != 0%s); blk[%d] = c; }" % (" && c != ':'" if j == 0 else "", pos)); pos += 1
        blk.append("blk[%d] = 0;" % pos); pos += 1
        v0 = None
        if hv:
            blk.append("blk[%d] = '=';" % pos); pos += 1
            v0 = pos
            for j in range(vl):
                blk.append("{ char c = nd_char(); ASSUME(c != 0); blk[%d] = c; }" % pos); pos += 1
            blk.append("blk[%d] = 0;" % pos); pos += 1
        lay.append((k0, kl, v0, vl))
    blk.append("blk[%d] = 0; /* terminator of the string literal */" % pos); pos += 1
    total = pos
    T = ['#include "%s/src/cpp/ports.cpp"' % repo, '#include "nd.h"', "using namespace rtosc;",
         "static char blk[%d]; static char q[3];" % (total + 4),
         "static bool keyeq(const char *a, const char *b) { for(int j = 0; j < 4; j++) { if(a[j] != b[j]) return false; if(!a[j]) return true; } return true; }",
         'extern "C" void harness(void)\n{']
    T += ["    " + b for b in blk]
    T.append("    for(int j = %d; j < %d; j++) blk[j] = nd_char(); /* whatever follows the block in memory */" % (total, total + 4))
    T.append('    Port p = {"x", blk, nullptr, nullptr};')
    T.append("    Port::MetaContainer mc = p.meta();")
    T.append("    Port::MetaIterator it = mc.begin();")
    for i, (k0, kl, v0, vl) in enumerate(lay):
        T.append('    CHECK(it != mc.end(), "C17 iteration yields every entry");')
        T.append('    CHECK(it.title == blk + %d, "C17 entry key read back in order");' % k0)
        if v0 is None:
            T.append('    CHECK(it.value == nullptr, "C17 entry without value reports no value");')
        else:
            T.append('    CHECK(it.value == blk + %d, "C17 entry value read back (may contain \':\' and \'=\')");' % v0)
        T.append("    ++it;")
    T.append('    CHECK(!(it != mc.end()), "C17 iteration ends after the last entry");')
    T.append('    CHECK(mc.length() == %d, "C17 length equals the block\'s byte length including its terminator");' % total)
    T.append("    q[0] = nd_char(); q[1] = nd_char(); q[2] = 0; if(q[0] == 0) q[1] = 0;")
    T.append("    const char *ev = nullptr, *ek = nullptr; bool found = false;")
    for i, (k0, kl, v0, vl) in enumerate(lay):
        T.append("    if(!found && keyeq(blk + %d, q)) { found = true; ek = blk + %d; ev = %s; }" % (k0, k0, "blk + %d" % v0 if v0 is not None else "nullptr"))
    T.append('    CHECK(mc[q] == ev, "C17 lookup by key returns the value of the first entry with that key (nothing if absent or valueless)");')
    T.append('    CHECK(mc.find(q).title == ek, "C17 find reports presence of a key");')
    T.append('    if(found) WITNESS("C17 key found");')
    T.append('    WITNESS("C17 end");\n}')
    return "\n".join(T) + "\n", total


def build(ctx):
    thorough = ctx.tier == "thorough"
    rnd = random.Random(ctx.seed)
    ctx.units = ["src/cpp/ports.cpp (Port::MetaIterator, Port::MetaContainer, metaiterator_advance) via LLVM IR"]
    ctx.functions = ["metaiterator_advance", "Port::MetaIterator::MetaIterator", "Port::MetaIterator::operator++", "Port::MetaContainer::begin/end/find/length/operator[]", "Port::meta"]
    opts = [(kl, hv, vl) for kl in (1, 2) for hv, vl in ((False, 0), (True, 0), (True, 1), (True, 2))]
    specs = [[o] for o in opts] + [list(x) for x in itertools.product(opts, repeat=2)]
    three = [list(x) for x in itertools.product(opts, repeat=3)]
    rnd.shuffle(three)
    specs += three[: (24 if not thorough else 200)]
    if thorough:
        four = [[rnd.choice(opts + [(3, True, 3), (3, False, 0)]) for _ in range(4)] for _ in range(60)]
        specs += four
    else:
        rnd.shuffle(specs)
        specs = specs[:40]
    rt = [os.path.join(vlib.STUBS, "cxxrt.c"), os.path.join(vlib.STUBS, "nd_cbmc.c"), os.path.join(vlib.STUBS, "libc_extra.c"),
          ctx.unit("rtosc"), ctx.unit("dispatch")]
    for i, sp in enumerate(specs):
        t, total = text(sp, vlib.REPO)
        name = "m%03d" % i
        h = ctx.write("gen/%s.cpp" % name, t)
        q = ctx.add(vlib.Query(name, ["@IR@"] + rt, unwind=total + 3, objbits=12, native_sources=[h], native_cxx=True, native_lib_exclude=["ports.cpp"],
                           descr={"entries": ["key%d%s" % (k, ("=value%d" % v) if hv else "") for k, hv, v in sp], "bytes": "all key/value bytes symbolic (non-NUL), incl. ':' and '='",
                                  "lookup key": "2 symbolic bytes"}))
        q.prepare = (lambda name_, h_: (lambda q_: q_.sources.__setitem__(0, ctx.ir_translate(name_, h_, cxx=True))))(name, h)
    ctx.bounds = {"entries": "1..3 (4 thorough)", "key length": "1..2 (3)", "value length": "0..2 (3), or no value", "contents": "every non-NUL byte"}
    ctx.assumptions = ["blocks have the form the macros produce: ':' key NUL ['=' value NUL] ... NUL", "keys and values contain no NUL", "a key does not start with ':' (keys come from macro arguments)"]
    ctx.stubs = ["C++ runtime (operator new/delete pool, __cxa_*): stubs/cxxrt.c", "bcmp: stubs/libc_extra.c"]
    ctx.outside = ["more than 4 entries, keys/values longer than 3"]
