"""generator of message-construction harnesses (C01, C02, C08): the type tag
string is concrete per query, every value/length/byte is symbolic."""
import random

VALUE_TAGS = "ifsbhtdScrmTFNI"
ALL_TAGS = VALUE_TAGS + "[]"
SIZE4 = "ifcrm"
SIZE8 = "htd"
NOPAY = "TFNI[]"


def pad4(n):
    return (n // 4 + 1) * 4


def max_need(tags, AL, SL, BL):
    n = pad4(AL) + pad4(1 + len(tags))
    for t in tags:
        if t in SIZE4:
            n += 4
        elif t in SIZE8:
            n += 8
        elif t in "sS":
            n += pad4(SL)
        elif t == "b":
            n += 4 + (BL + 3) // 4 * 4
    return n


def tag_sets(tier, seed):
    rnd = random.Random(seed)
    out = [""] + list(ALL_TAGS)
    if tier == "quick":
        rep = "ifhdmsbT[]"
        out += [a + b for a in rep for b in rep]
        for _ in range(12):
            out.append("".join(rnd.choice(ALL_TAGS) for _ in range(rnd.randint(3, 6))))
        out += ["[ii]", "s[b]T", "bsb", "sss", "hbs", "[sS]b"]
    else:
        out += [a + b for a in ALL_TAGS for b in ALL_TAGS]
        rep = "ihsbT["
        tri = [a + b + c for a in rep for b in rep for c in rep]
        rnd.shuffle(tri)
        out += tri[:80]
        for _ in range(40):
            out.append("".join(rnd.choice(ALL_TAGS) for _ in range(rnd.randint(4, 10))))
    seen, res = set(), []
    for t in out:
        if t not in seen:
            seen.add(t)
            res.append(t)
    return res


def var_slots(tags):
    """indices (among value tags) of the variable-length arguments"""
    out, k = [], 0
    for t in tags:
        if t in "[]":
            continue
        if t in "sSb":
            out.append(k)
        k += 1
    return out


def gen_inputs(tags, SL, BL, lens=None):
    """C statements declaring + filling the symbolic arguments; returns (decls, fill, ref, varargs, argvals)"""
    decl, fill, ref, va, slots = [], [], [], [], []
    k = 0
    a = 0
    for t in tags:
        if t in "[]":
            continue
        if t in "icr":
            fill.append("args[%d].i = nd_i32();" % a)
            ref.append("p = ref_u32(ref, p, (uint32_t)args[%d].i);" % a)
            va.append("args[%d].i" % a)
        elif t == "f":
            fill.append("{ union { uint32_t u; float f; } x; x.u = nd_u32(); args[%d].f = x.f; }\n#ifdef NO_NAN\n    ASSUME(args[%d].f == args[%d].f);\n#endif" % (a, a, a))
            ref.append("p = ref_u32(ref, p, f2u(args[%d].f));" % a)
            va.append("(double)args[%d].f" % a)
        elif t in "ht":
            fill.append("args[%d].h = nd_i64();" % a)
            ref.append("p = ref_u64(ref, p, (uint64_t)args[%d].h);" % a)
            va.append("args[%d].h" % a)
        elif t == "d":
            fill.append("{ union { uint64_t u; double f; } x; x.u = nd_u64(); args[%d].d = x.f; }" % a)
            ref.append("p = ref_u64(ref, p, d2u(args[%d].d));" % a)
            va.append("args[%d].d" % a)
        elif t == "m":
            fill.append("for(int j = 0; j < 4; j++) args[%d].m[j] = nd_u8();" % a)
            ref.append("for(int j = 0; j < 4; j++) ref[p++] = args[%d].m[j];" % a)
            decl.append("static uint8_t midi%d[4];" % k)
            fill.append("for(int j = 0; j < 4; j++) midi%d[j] = args[%d].m[j];" % (k, a))
            va.append("midi%d" % k)
        elif t in "sS":
            decl.append("static char str%d[%d];" % (k, SL + 1))
            if lens is not None:
                n = lens[k]
                fill.append("for(int j = 0; j < %d; j++) { str%d[j] = nd_char(); ASSUME(str%d[j] != 0); } str%d[%d] = 0; args[%d].s = str%d;" % (n, k, k, k, n, a, k))
                ref.append("for(int j = 0; j < %d; j++) ref[p++] = (unsigned char)str%d[j]; p = ref_pad(ref, p);" % (n, k))
            else:
                fill.append("for(int j = 0; j < %d; j++) str%d[j] = nd_char(); str%d[%d] = 0; args[%d].s = str%d;" % (SL, k, k, SL, a, k))
                ref.append("p = ref_str(ref, p, str%d, %d);" % (k, SL))
            va.append("(const char *)str%d" % k)
        elif t == "b":
            decl.append("static uint8_t blob%d[%d];" % (k, max(BL, 1)))
            if lens is not None:
                n = lens[k]
                fill.append("for(int j = 0; j < %d; j++) blob%d[j] = nd_u8(); args[%d].b.len = %d; args[%d].b.data = blob%d;" % (BL, k, a, n, a, k))
                ref.append("p = ref_u32(ref, p, %d); for(int j = 0; j < %d; j++) ref[p++] = blob%d[j]; while(p %% 4) ref[p++] = 0;" % (n, n, k))
            else:
                fill.append("for(int j = 0; j < %d; j++) blob%d[j] = nd_u8(); args[%d].b.len = nd_range(0, %d); args[%d].b.data = nd_bool() ? &blob%d[0] : (uint8_t *)0;" % (BL, k, a, BL, a, k))
                ref.append("p = ref_blob(ref, p, (uint32_t)args[%d].b.len, args[%d].b.data, %d);" % (a, a, BL))
            va.append("(int)args[%d].b.len, args[%d].b.data" % (a, a))
        else:  # T F N I: no slot in the argument array
            slots.append((t, k, None))
            k += 1
            continue
        slots.append((t, k, a))
        k += 1
        a += 1
    return decl, fill, ref, va, slots


def arg_check(t, k, expr, what, a=None):
    """C check that rtosc_arg_t `expr` equals original args[a] (value index k) of type t"""
    c = []
    if t in "icrf":
        c.append('CHECK((uint32_t)(%s).i == (uint32_t)args[%d].i, "%s: 32-bit argument bit-identical");' % (expr, a, what))
    elif t in "htd":
        c.append('CHECK((%s).t == args[%d].t, "%s: 64-bit argument bit-identical");' % (expr, a, what))
    elif t == "m":
        c.append('CHECK(memcmp((%s).m, args[%d].m, 4) == 0, "%s: midi bytes identical");' % (expr, a, what))
    elif t in "sS":
        c.append('CHECK(strcmp((%s).s, str%d) == 0, "%s: string identical");' % (expr, k, what))
    elif t == "b":
        c.append('CHECK((%s).b.len == args[%d].b.len, "%s: blob length identical");' % (expr, a, what))
        c.append('for(int j = 0; j < args[%d].b.len; j++) CHECK((%s).b.data[j] == (args[%d].b.data ? args[%d].b.data[j] : 0), "%s: blob bytes identical (zeros for NULL data)");' % (a, expr, a, a, what))
    elif t == "T":
        c.append('CHECK((%s).T == 1, "%s: T reads true");' % (expr, what))
    elif t == "F":
        c.append('CHECK((%s).T == 0, "%s: F reads false");' % (expr, what))
    return c
