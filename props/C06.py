"""C06 ThreadLink FIFO (sequential histories by one-step induction) -- src/cpp/thread-link.cpp via the IR route"""
import itertools
import os
import vlib

OPS = {1: "writeArray 8 bytes", 2: "writeArray 12 bytes", 3: "writeArray 16 bytes", 4: "writeArray 24 bytes (> MaxMsg)",
       5: "raw_write 8 bytes", 6: "raw_write 12 bytes", 7: "raw_write 16 bytes", 8: "raw_write 24 bytes (> MaxMsg)", 9: "read", 10: "read_lookahead"}


def build(ctx):
    thorough = ctx.tier == "thorough"
    ctx.units = ["src/cpp/thread-link.cpp via LLVM IR", "src/rtosc.c (rtosc_amessage, rtosc_message_ring_length) directly"]
    ctx.functions = ["ThreadLink::ThreadLink", "writeArray", "raw_write", "hasNext", "hasNextLookahead", "read", "read_lookahead", "ring_read_size", "ring_write_size",
                     "ring_write", "ring_read", "ring_read_vector", "rtosc_message_ring_length", "rtosc_amessage", "rtosc_message_length"]
    inc = ['-DREPO_THREADLINK="%s/src/cpp/thread-link.cpp"' % vlib.REPO]
    rt = [os.path.join(vlib.STUBS, "cxxrt.c"), os.path.join(vlib.STUBS, "nd_cbmc.c"), os.path.join(vlib.STUBS, "libc_extra.c"), ctx.unit("rtosc")]
    h = os.path.join(vlib.HARN, "C06", "h_fifo.cpp")
    shapes = [()] + [s for n in (1, 2, 3) for s in itertools.product((8, 12, 16), repeat=n) if sum(s) <= 28]
    if not thorough:
        shapes = [s for s in shapes if len(s) <= 1 or s in ((8, 8), (8, 16), (16, 12), (12, 12), (8, 8, 8), (8, 12, 8), (12, 8, 8), (16, 8))]
    shapes36 = [()] + [s_ for n_ in (1, 2, 3) for s_ in itertools.product((8, 12), repeat=n_) if sum(s_) <= 32]
    if not thorough:
        shapes36 = [s_ for s_ in shapes36 if len(s_) <= 1 or s_ in ((8, 12), (12, 12), (12, 12, 8), (8, 8, 12))]
    for sh, ring in [(s_, 32) for s_ in shapes] + [(s_, 36) for s_ in shapes36]:
        nq = len(sh)
        q = list(sh) + [8] * (3 - nq)
        for la in range(nq + 1):
            if not thorough and la not in (0, nq) and nq > 2:
                continue
            for op in OPS:
                if op == 9 and nq == 0:
                    continue
                if op == 10 and la >= nq:
                    continue
                if not thorough and op in (1, 5) and nq >= 2:
                    continue
                for rfix in ([None] if op <= 8 else ([0, 12, 20, ring - 4] if not thorough else list(range(0, ring, 4)))):
                    defs = ["-DNQ=%d" % nq, "-DLA=%d" % la, "-DOP=%d" % op, "-DQ0=%d" % q[0], "-DQ1=%d" % q[1], "-DQ2=%d" % q[2]] + (["-DRFIX=%d" % rfix] if rfix is not None else []) + (["-DMAXMSG=12", "-DNMSG=3"] if ring == 36 else [])
                    name = "%sq%s-la%d-op%d%s" % ("R36" if ring == 36 else "", "_".join(map(str, sh)) or "empty", la, op, "-r%d" % rfix if rfix is not None else "")
                    qq = ctx.add(vlib.Query(name, ["@IR@"] + rt, defines=defs, unwind=40, objbits=12, unwindset=["rtosc_message_ring_length.%d:10" % k for k in range(8)] + ["bundle_ring_length.0:4"], native_sources=[h], native_cxx=True, native_flags=inc + defs,
                                            native_lib_exclude=["thread-link.cpp"],
                                            descr={"ring bytes": ring, "queued message sizes": list(sh), "lookahead has seen": la, "operation": OPS[op], "read index": "symbolic (any multiple of 4 in the ring)" if rfix is None else rfix,
                                                   "payloads": "symbolic"}))
                    qq.prepare = (lambda name_, defs_: (lambda q_: q_.sources.__setitem__(0, ctx.ir_translate(name_, h, cxx=True, defines=inc + defs_))))(name, defs)
    # ---- schedules: resumable step functions, symbolic interleaving at atomic accesses and buffer copies ----
    hs = os.path.join(vlib.HARN, "C06", "h_sched.cpp")
    # schedules are enumerated concretely (which thread yields at which of its yield points); a symbolic schedule did not finish
    NY = 20 if not thorough else 26    # yield points enumerated per thread (beyond the last real one the query degenerates to the sequential case)
    sched = []
    for pre, w0, w1 in ([(0, 8, 12), (2, 12, 12)] if not thorough else [(0, 8, 12), (1, 12, 12), (2, 12, 12), (2, 16, 8)]):
        for k in range(NY):
            sched.append((pre, w0, w1, 0, k, -1, -1, -1))      # writer preempted at its k-th point, reader runs to completion, writer resumes
            sched.append((pre, w0, w1, 1, -1, -1, k, -1))      # reader preempted at its k-th point, writer runs to completion, reader resumes
        if thorough:
            for k in range(0, NY, 2):
                for j in range(0, NY, 3):
                    sched.append((pre, w0, w1, 0, k, -1, j, -1))   # W to k, R to j, W to the end, R to the end
    if not os.environ.get("VERIF_C06_SCHED"):
        sched = []   # NOT RUN by default: neither a symbolic schedule (600 s) nor one concrete schedule per query (1200 s) finished
    for pre, w0, w1, first, yw1, yw2, yr1, yr2 in sched:
        wops = 1
        defs = ["-DPRE=%d" % pre, "-DW0=%d" % w0, "-DW1=%d" % w1, "-DWOPS=%d" % wops, "-DFIRST=%d" % first, "-DYW1=%d" % yw1, "-DYW2=%d" % yw2, "-DYR1=%d" % yr1, "-DYR2=%d" % yr2]
        name = "sched-pre%d-w%d_%d-f%d-w%d_%d-r%d_%d" % (pre, w0, w1, first, yw1, yw2, yr1, yr2)
        qq = ctx.add(vlib.Query(name, ["@IR@"] + rt, defines=defs, unwind=40, objbits=12, native_sources=["@IR@", os.path.join(vlib.STUBS, "cxxrt_native.c"), vlib.unit("rtosc")],
                                native_cxx=False, native_flags=["-DND_NO_SCHED"], unwindset=["rtosc_message_ring_length.%d:10" % k_ for k_ in range(8)] + ["bundle_ring_length.0:4"],
                                descr={"threads": "m0 queued beforehand; writer: raw_write(m1)   reader: 2 x (hasNext ? read)", "message sizes": [w0, w1], "ring pre-positioned by": "%d write/read pairs of 12 bytes" % pre,
                                       "schedule": "%s starts; writer yields at its yield points %s, reader at %s (yield point = atomic index access or buffer copy)" % ("reader" if first else "writer", [yw1, yw2], [yr1, yr2]),
                                       "payloads": "symbolic"}))
        qq.prepare = (lambda name_, defs_: (lambda q_: (q_.sources.__setitem__(0, ctx.ir_translate(name_, hs, cxx=True, defines=inc + defs_, roots=("harness", "writer_thread", "reader_thread"), resumable=("writer_thread", "reader_thread"))),
                                                        q_.native_sources.__setitem__(0, q_.sources[0]))))(name, defs)
    ctx.bounds = {"ring": "32 bytes (MaxMsg 16 x 2) and 36 bytes (MaxMsg 12 x 3, not a power of two)", "queue": "0..3 framed messages of 8/12/16 bytes (all fillings that fit)", "read index": "all positions", "operations": "one step from every such state"}
    ctx.assumptions = ["representation invariant of the pre-state: indices are multiples of 4 inside the ring, queued messages are complete OSC messages laid out from the read index, the lookahead index lies on a message boundary between read and write",
                       "sequential consistency; ONE thread at a time: interleavings of writer and reader inside an operation are NOT explored by this check"]
    ctx.stubs = ["C++ runtime: stubs/cxxrt.c (operator new as typed pool)"]
    ctx.outside = ["interleavings at the granularity of atomic accesses (the schedules quantifier of C06): a step-function sequentialisation exists (tools/ll2c.py --resumable, harness/C06/h_sched.cpp) but its smallest query did not finish in 600 s, so it is not part of the check",
                   "ThreadLink::write (C++ varargs)", "rings larger than 32 bytes, messages other than 8/12/16/24 bytes"]
