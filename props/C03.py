"""C03 realtime safety: the allocator / mutex stubs assert that they are never reached between RT_BEGIN and
RT_END of the harnesses that run the message path.  This check re-runs a selection of those harnesses (the same
real code, all inputs within their bounds) and adds message shapes chosen for the allocation clause."""
import os
import re
import importlib
import vlib

SELECT = {
    "C01": r"^(none|i|s|b|h|T|sb|ib|bs|LiiR)-(p1|p4|p5|l\w*-p[236]-a[13])",
    "C05": r"^p00(0[0-9]|1[0-5])$|^opt[0-2]$",
    "C06": r"^q(empty|8|8_16|8_8_8)-la[0-9]-op(2|3|4|6|8|9|10)(-r(0|28))?$",
    "C07": r"^full-n8|^tags-(s|sb|bh|none)-",
    "C08": r"^bundle-(0|1|12|5)-c8$|^notbundle$",
    "C14": r".",
    "C04": r"^hashA-(sub_x|a.?~)|^enumB-(c1|s1_y)|^hashC-(vol~|fx_m)|^linD-a",
}


def build(ctx):
    thorough = ctx.tier == "thorough"
    units, funcs = [], []
    for pid, rx in SELECT.items():
        mod = importlib.import_module(pid)
        before = len(ctx.queries)
        real_tier, ctx.tier = ctx.tier, "quick"    # hosts always contribute their quick sets; thorough = all of them
        mod.build(ctx)
        ctx.tier = real_tier
        units += ctx.units
        funcs += ctx.functions
        new = ctx.queries[before:]
        keep = [q for q in new if thorough or re.search(rx, q.name)]
        for q in keep:
            q.name = pid + ":" + q.name
            q.descr = dict(q.descr, host_harness=pid)
        ctx.queries[before:] = keep
    # message building with many value-carrying arguments through the varargs route
    C01 = importlib.import_module("C01")
    lib = [ctx.unit("rtosc"), os.path.join(vlib.STUBS, "nd_cbmc.c")]
    for tags in ["i" * 18, "TFNI" * 3 + "i" * 17]:
        text, cap, nargs = C01.harness_text(tags, None, conc_addr=True)
        safe = "many%d_%s" % (len(tags), tags[:6])
        h = ctx.write("gen/h_%s.c" % safe, text)
        for part in (1, 4):
            ctx.add(vlib.Query("C01:%s-p%d" % (safe, part), [h] + lib, defines=["-DPART=%d" % part, "-DALEN=2"] + (["-DNO_NAN"] if part == 4 else []),
                               unwind=cap + 3, native_sources=[h, vlib.unit("rtosc")],
                               descr={"tags": tags, "part": "constructor with %d value-carrying arguments" % len([c for c in tags if c not in "TFNI"]), "host_harness": "C01"}))
    ctx.units = sorted(set(units))
    ctx.functions = sorted(set(funcs))
    ctx.bounds = {"inputs": "those of the host harnesses (C01, C04, C05, C06, C07, C08, C14): every input within their bounds", "monitor": "malloc/calloc/realloc/free/pthread_mutex_lock and operator new/delete (incl. new[]) stubs assert !verif_rt_section"}
    ctx.assumptions = ["the realtime section starts after construction (ThreadLink constructor, static port objects) and covers every library call of the host harness",
                       "libc internals are stubs; stack growth (VLAs) is not heap"]
    ctx.stubs = ["stubs/nd_cbmc.c (malloc family, pthread_mutex_lock)", "stubs/cxxrt.c (operator new/delete)", "tools/ll2c.py byte-allocation lowering"]
    ctx.outside = ["dispatch is covered for C04's directly constructed tables only (recording callbacks; the library's own parameter-port callbacks are covered separately through C14)",
                   "RtData::reply/broadcast default forwarding with 8 KiB stack buffers (the recording subclass overrides the variadic forms)", "inputs beyond the host harness bounds"]
