"""C02 fixed-buffer discipline -- cbmc on src/rtosc.c (+ arg-val*.c), symbolic capacity"""
import os
import vlib
import msggen as G

AL, SL, BL = 5, 5, 5
SLACK = 8


def harness_text(tags):
    decl, fill, ref, va, slots = G.gen_inputs(tags, SL, BL, None)
    nargs = len(slots)
    nslots = len([1 for x in slots if x[2] is not None])
    cap = G.max_need(tags, AL, SL, BL)
    L = ['#include <rtosc/rtosc.h>\n#include <rtosc/arg-val.h>\n#include <string.h>\n#include "nd.h"\n#include "msg_ref.h"']
    L.append("#define CAP %d\n#define AL %d\n#define OBJ (CAP + %d)" % (cap, AL, 2 * SLACK))
    L.append("static char buf[OBJ]; static char pre[OBJ]; static unsigned char ref[CAP + 8];")
    L.append("static rtosc_arg_t args[%d]; static char addr[AL + 1];" % max(nslots, 1))
    L.append('static const char TAGS[] = "%s";' % tags)
    L += decl
    L.append("void harness(void)\n{")
    L.append("#ifdef ALEN\n    unsigned alen = ALEN;\n#else\n    unsigned alen = (unsigned)nd_range(1, AL);\n#endif")
    L.append("    for(unsigned j = 0; j < AL; j++) { char c = nd_char(); if(j < alen) { ASSUME(c != 0); addr[j] = c; } else addr[j] = 0; }\n    addr[AL] = 0;")
    L += ["    " + f for f in fill]
    L.append("    for(unsigned j = 0; j < OBJ; j++) { buf[j] = nd_char(); pre[j] = buf[j]; }")
    L.append("    unsigned p = 0;\n    for(unsigned j = 0; j < alen; j++) ref[p++] = (unsigned char)addr[j];\n    p = ref_pad(ref, p);\n    ref[p++] = ',';")
    for t in tags:
        L.append("    ref[p++] = '%s';" % t)
    L.append("    p = ref_pad(ref, p);")
    L += ["    " + r for r in ref]
    L.append("    const unsigned R = p; /* needed size */")
    L.append("    size_t cap = (size_t)nd_range(0, OBJ - %d);" % SLACK)
    L.append("    ASSUME(cap <= R + %d);" % SLACK)
    L.append("#if PART == 1")
    L.append("    size_t r = rtosc_amessage(buf, cap, addr, TAGS, args);")
    L.append("#elif PART == 2")
    L.append("    size_t r = rtosc_message(buf, cap, addr, TAGS%s);" % ("".join(", " + v for v in va)))
    L.append("#elif PART == 3")
    L.append("    static rtosc_arg_val_t avs[%d];" % max(nargs, 1))
    for t, k, a in slots:
        if a is None:
            L.append("    avs[%d].type = '%s'; avs[%d].val.h = nd_i64();" % (k, t, k))
        else:
            L.append("    avs[%d].type = '%s'; avs[%d].val = args[%d];" % (k, t, k, a))
    L.append("    size_t r = rtosc_avmessage(buf, cap, addr, %d, avs);" % nargs)
    L.append("#endif")
    L.append("    if(cap < R) {")
    L.append('        CHECK(r == 0, "C02 returns 0 when the encoding does not fit");')
    L.append('        { int z = 1; for(unsigned j = 0; j < OBJ; j++) if(j < cap && buf[j] != 0) z = 0; CHECK(z, "C02 buffer left zero-filled when the encoding does not fit"); }')
    L.append('        WITNESS("C02 does-not-fit branch");')
    L.append("    } else {")
    L.append('        CHECK(r == R, "C02 returns the exact encoded size when it fits");')
    L.append('        { int same = 1; for(unsigned j = 0; j < CAP; j++) if(j < R && (unsigned char)buf[j] != ref[j]) same = 0; CHECK(same, "C02 fitting message is the complete encoding"); }')
    L.append('        WITNESS("C02 fits branch");')
    L.append("    }")
    L.append('    { int same = 1; for(unsigned j = 0; j < OBJ; j++) if(j >= cap && buf[j] != pre[j]) same = 0; CHECK(same, "C02 no byte at or beyond buffer+len is modified"); }')
    L.append('    CHECK(rtosc_amessage(0, 0, addr, TAGS, args) == R, "C02 NULL-buffer call returns the needed size");')
    L.append('    WITNESS("C02 end");\n}')
    return "\n".join(L) + "\n", cap, nargs


PARTS = {1: "argument-array constructor", 2: "varargs constructor", 3: "argument-value-list constructor"}


def build(ctx):
    thorough = ctx.tier == "thorough"
    ctx.units = ["src/rtosc.c", "src/cpp/arg-val.c", "src/cpp/arg-val-itr.c", "src/cpp/arg-val-math.c", "src/cpp/arg-ext.c"]
    ctx.functions = ["rtosc_amessage", "vsosc_null", "rtosc_message", "rtosc_vmessage", "rtosc_v2args", "rtosc_avmessage", "rtosc_bundle"]
    lib = [ctx.unit("rtosc")]
    libav = [ctx.unit("arg-val"), ctx.unit("arg-val-itr"), ctx.unit("arg-val-math"), ctx.unit("arg-ext"), ctx.unit("arg-val-cmp")]
    nlib = [vlib.unit("rtosc")]
    nlibav = [vlib.unit(u) for u in ("arg-val", "arg-val-itr", "arg-val-math", "arg-ext", "arg-val-cmp")]
    nd = os.path.join(vlib.STUBS, "nd_cbmc.c")
    tagsets = G.tag_sets(ctx.tier, ctx.seed)
    if not thorough:
        tagsets = [t for t in tagsets if len(t) <= 1] + [t for t in tagsets if len(t) == 2 and (t[0] in "sbih[" and t[1] in "sbhT]")] + [t for t in tagsets if len(t) > 2][:8]
    for tags in tagsets:
        safe = "".join(c if c.isalnum() else ("L" if c == "[" else "R") for c in tags) or "none"
        text, cap, nargs = harness_text(tags)
        h = ctx.write("gen/h_%s.c" % safe, text)
        alens = [None] if len(tags) <= 1 else [1 + (sum(map(ord, tags)) % 4)]
        for part, alen in [(p_, a_) for p_ in (1, 2, 3) for a_ in alens]:
            if part == 3 and ("[" in tags or "]" in tags):
                continue
            if part in (2, 3) and len(tags) > 1 and (sum(map(ord, tags)) % 3):
                continue
            defs = ["-DPART=%d" % part] + (["-DALEN=%d" % alen] if alen else []) + (["-DNO_NAN"] if part == 2 else [])
            avl = part == 3
            ctx.add(vlib.Query("%s-p%d%s" % (safe, part, "-a%d" % alen if alen else ""), [h] + lib + (libav if avl else []) + [nd],
                               defines=defs, unwind=cap + 2 * SLACK + 3, native_sources=[h] + nlib + (nlibav if avl else []),
                               descr={"tags": tags, "constructor": PARTS[part], "needed_max": cap,
                                      "capacity": "symbolic 0..needed+%d" % SLACK, "address_length": alen or "symbolic 1..%d" % AL}))
    # bundles
    hb = os.path.join(vlib.HARN, "C02", "h_bundle_cap.c")
    for shape in (["0", "1", "2", "4", "11", "12", "34"] if not thorough else ["0", "1", "2", "3", "4", "11", "12", "21", "22", "13", "33", "34", "43", "111", "123", "241"]):
        ctx.add(vlib.Query("bundle-%s" % shape, [hb] + lib + [nd], defines=["-DSHAPE=%s" % shape, "-DNEL=%d" % (0 if shape == "0" else len(shape))],
                           unwind=120, native_sources=[hb] + nlib,
                           descr={"bundle_elements": "none" if shape == "0" else [int(c) for c in shape], "capacity": "symbolic 0..needed+8"}))
    ctx.bounds = {"capacity": "symbolic, 0..needed+%d in every query" % SLACK, "address_length": "1..%d" % AL, "strings/blobs": "0..%d bytes" % SL,
                  "bundle": "0..3 elements from 3 message shapes"}
    ctx.assumptions = ["destination object is %d bytes larger than any capacity passed, pre-filled with arbitrary bytes" % SLACK,
                       "bundle elements are well-formed messages (documented precondition of rtosc_bundle)", "x86-64 LP64, -DNDEBUG"]
    ctx.outside = ["capacities beyond needed+%d" % SLACK, "messages beyond the bounds of C01",
                   "call sites in C++ units (ThreadLink::write, RtData::reply): see C06/C03 harnesses"]
