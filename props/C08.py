"""C08 bundles compose/decompose losslessly -- cbmc on src/rtosc.c"""
import os
import vlib


def build(ctx):
    thorough = ctx.tier == "thorough"
    ctx.units = ["src/rtosc.c"]
    ctx.functions = ["rtosc_bundle", "rtosc_bundle_p", "rtosc_bundle_elements", "rtosc_bundle_fetch", "rtosc_bundle_size", "rtosc_bundle_timetag",
                     "rtosc_message_length", "bundle_ring_length", "extract_uint32/64", "emplace_uint32/64"]
    lib = [ctx.unit("rtosc"), os.path.join(vlib.STUBS, "nd_cbmc.c")]
    nlib = [vlib.unit("rtosc")]
    hb = os.path.join(vlib.HARN, "C08", "h_bundle.c")
    shapes = ["0", "1", "2", "3", "4", "5", "6", "11", "12", "34", "35", "53", "123", "151"]
    if thorough:
        shapes += ["21", "22", "33", "55", "66", "16", "61", "125", "345", "666", "1234", "5135", "1111", "6543"]
    for sh in shapes:
        nel = 0 if sh == "0" else len(sh)
        for capx in (0, 8):
            ctx.add(vlib.Query("bundle-%s-c%d" % (sh, capx), [hb] + lib, defines=["-DSHAPE=%s" % sh, "-DNEL=%d" % nel, "-DCAPX=%d" % capx, "-DND_MAX=1024"], unwind=16 + nel * 60 + 20,
                               unwindset=["rtosc_message_ring_length.%d:%d" % (k, 18) for k in range(8)] + ["bundle_ring_length.0:%d" % (nel + 3),
                                          "rtosc_bundle_elements.0:%d" % (nel + 3), "rtosc_bundle_fetch.0:%d" % (nel + 3), "rtosc_bundle_size.0:%d" % (nel + 3),
                                          "rtosc_bundle.0:%d" % (nel + 2), "strcmp.0:10", "strcpy.0:10"],
                               native_sources=[hb] + nlib,
                               descr={"elements": "none" if sh == "0" else [int(c) for c in sh], "time tag": "64 symbolic bits",
                                      "capacity": "needed+%d, destination object pre-filled with arbitrary bytes" % capx}))
    hn = os.path.join(vlib.HARN, "C08", "h_notbundle.c")
    ctx.add(vlib.Query("notbundle", [hn] + lib, unwind=26, native_sources=[hn] + nlib, descr={"message": "23 symbolic bytes starting with '/'"}))
    ctx.bounds = {"elements": "0..3 (4 thorough) per bundle", "nesting depth": "0..3", "element kinds": "int message, string message (2 sizes), empty bundle, bundle of one message, doubly nested bundle",
                  "time tag": "all 64-bit values"}
    ctx.assumptions = ["elements are well-formed messages/bundles followed by zero bytes (rtosc_bundle measures them with an unbounded length)",
                       "destination buffer holds arbitrary stale bytes; capacity at least the needed size (smaller capacities are C02)"]
    ctx.outside = ["more than 4 elements, nesting deeper than 3", "subtree-serialize.cpp append_bundle (C++ unit, not encoded yet)"]
