"""C16 argument-value comparison laws and compression invariance -- cbmc on src/cpp/arg-val-*.c, arg-ext.c"""
import itertools
import os
import random
import vlib

SCALARS = "icrhtfdmsSbTFNI"
PRE = r'''
#include "c16_units.h"
#include <rtosc/rtosc.h>
#include <rtosc/arg-val.h>
#include <rtosc/arg-val-cmp.h>
#include <rtosc/arg-val-itr.h>
#include <rtosc/arg-val-math.h>
#include <rtosc/arg-ext.h>
#include <string.h>
#include "nd.h"
#define SL 2
#define BL 2
static char sbuf[24][SL + 1];
static uint8_t bbuf[24][BL + 1];
static int nslot;
static int sgn(int x) { return x > 0 ? 1 : (x < 0 ? -1 : 0); }
static void mk(rtosc_arg_val_t *av, char t)
{
    memset(av, 0, sizeof *av);
    av->type = t;
    int k = nslot++;
    switch(t) {
    case 'i': case 'c': case 'r': av->val.i = nd_i32(); break;
    case 'h': av->val.h = nd_i64(); break;
    case 't': av->val.t = nd_u64(); break;
    case 'f': { float f = nd_float(); ASSUME(f == f); av->val.f = f; break; }
    case 'd': { double d = nd_double(); ASSUME(d == d); av->val.d = d; break; }
    case 'm': for(int j = 0; j < 4; j++) av->val.m[j] = nd_u8(); break;
    case 's': case 'S': for(int j = 0; j < SL; j++) sbuf[k][j] = nd_char(); sbuf[k][SL] = 0; av->val.s = sbuf[k]; break;
    case 'b': for(int j = 0; j <= BL; j++) bbuf[k][j] = nd_u8(); av->val.b.len = nd_range(0, BL); av->val.b.data = bbuf[k]; break;
    case 'T': av->val.T = 1; break;
    case 'F': av->val.T = 0; break;
    default: break;
    }
}
static void mk_arr(rtosc_arg_val_t *av, char t, int n) { memset(av, 0, sizeof *av); av->type = 'a'; rtosc_av_arr_type_set(av, t); rtosc_av_arr_len_set(av, n); }
static void mk_rep(rtosc_arg_val_t *av, int n, int delta) { memset(av, 0, sizeof *av); av->type = '-'; rtosc_av_rep_num_set(av, n); rtosc_av_rep_has_delta_set(av, delta); }
static int CMP(const rtosc_arg_val_t *a, int na, const rtosc_arg_val_t *b, int nb) { return rtosc_arg_vals_cmp(a, b, na, nb, 0); }
static int EQ(const rtosc_arg_val_t *a, int na, const rtosc_arg_val_t *b, int nb) { return rtosc_arg_vals_eq(a, b, na, nb, 0) != 0; }
/* semantic order of two scalars of the same type (reference) */
static int ref_order(const rtosc_arg_val_t *a, const rtosc_arg_val_t *b)
{
    switch(a->type) {
    case 'i': case 'c': case 'r': return a->val.i < b->val.i ? -1 : a->val.i > b->val.i;
    case 'h': return a->val.h < b->val.h ? -1 : a->val.h > b->val.h;
    case 'f': return a->val.f < b->val.f ? -1 : a->val.f > b->val.f;
    case 'd': return a->val.d < b->val.d ? -1 : a->val.d > b->val.d;
    case 't': if(a->val.t == 1 || b->val.t == 1) return (a->val.t == 1) ? ((b->val.t == 1) ? 0 : -1) : 1;
              return a->val.t < b->val.t ? -1 : a->val.t > b->val.t;
    case 'm': for(int j = 0; j < 4; j++) if(a->val.m[j] != b->val.m[j]) return a->val.m[j] < b->val.m[j] ? -1 : 1; return 0;
    case 's': case 'S': for(int j = 0; j <= SL; j++) { unsigned char x = a->val.s[j], y = b->val.s[j]; if(x != y) return x < y ? -1 : 1; if(!x) return 0; } return 0;
    case 'b': { int la = a->val.b.len, lb = b->val.b.len;
                for(int j = 0; j < BL; j++) { if(j >= la || j >= lb) break; if(a->val.b.data[j] != b->val.b.data[j]) return a->val.b.data[j] < b->val.b.data[j] ? -1 : 1; }
                return la < lb ? -1 : la > lb; }
    default: return 0;
    }
}
'''


def build_list(name, shape):
    """shape: list of items ('v',t) | ('a',t,n). returns (C statements, slot count)"""
    L, n = [], 0
    for it in shape:
        if it[0] == "v":
            L.append("mk(&%s[%d], '%s');" % (name, n, it[1]))
            n += 1
        elif it[0] == "a":
            L.append("mk_arr(&%s[%d], '%s', %d);" % (name, n, it[1], it[2]))
            n += 1
            for j in range(it[2]):
                et = it[1]
                if et == "T" and len(it) > 3:   # mixed boolean array: element types given
                    et = it[3][j]
                L.append("mk(&%s[%d], '%s');" % (name, n, et))
                n += 1
    return L, n


def laws_text(sa, sb, sc, order):
    la, na = build_list("A", sa)
    lb, nb = build_list("B", sb)
    lc, nc = build_list("C", sc)
    T = [PRE, "static rtosc_arg_val_t A[%d], B[%d], C[%d];" % (max(na, 1), max(nb, 1), max(nc, 1)), "void harness(void)\n{"]
    T += ["    " + x for x in la + lb + lc]
    T.append("    int ab = CMP(A, %d, B, %d), ba = CMP(B, %d, A, %d), bc = CMP(B, %d, C, %d), ac = CMP(A, %d, C, %d);" % (na, nb, nb, na, nb, nc, na, nc))
    T.append('    CHECK(CMP(A, %d, A, %d) == 0, "C16 reflexive: cmp(a,a) == 0");' % (na, na))
    T.append('    CHECK(EQ(A, %d, A, %d), "C16 reflexive: eq(a,a)");' % (na, na))
    T.append('    CHECK(sgn(ab) == -sgn(ba), "C16 antisymmetric: sign(cmp(a,b)) == -sign(cmp(b,a))");')
    T.append('    CHECK(!(ab <= 0 && bc <= 0) || ac <= 0, "C16 transitive: a<=b and b<=c imply a<=c");')
    T.append('    CHECK((ab == 0) == EQ(A, %d, B, %d), "C16 cmp returns 0 exactly when eq reports equal");' % (na, nb))
    if order:
        T.append('    CHECK(sgn(ab) == ref_order(&A[0], &B[0]), "C16 semantic order (numeric / lexicographic / bytewise prefix-first / immediately first)");')
    T.append('    if(ab < 0) WITNESS("C16 a<b"); if(ab == 0) WITNESS("C16 a==b");')
    T.append('    WITNESS("C16 end");\n}')
    return "\n".join(T) + "\n"


def compress_text(t, n, kind, pre, post):
    """expanded list E vs compressed list K built from the same symbols; X an independent list of E's shape"""
    T = [PRE]
    ne = len(pre) + n + len(post)
    nk = len(pre) + (2 if kind == "const" else 3) + len(post)
    T.append("static rtosc_arg_val_t E[%d], K[%d], X[%d], E2[%d], K2[%d];" % (ne, nk, ne + 1, ne + 1, nk))
    T.append("static char be[64], bk[64];")
    T.append("void harness(void)\n{")
    e = k = 0
    for p in pre:
        T.append("    mk(&E[%d], '%s'); K[%d] = E[%d];" % (e, p, k, e))
        e += 1
        k += 1
    T.append("    rtosc_arg_val_t start, delta; mk(&start, '%s'); mk(&delta, '%s');" % (t, t))
    if kind == "const":
        for j in range(n):
            T.append("    E[%d] = start;" % (e + j))
        T.append("    mk_rep(&K[%d], %d, 0); K[%d] = start;" % (k, n, k + 1))
        k += 2
    else:
        fld = {"i": "i", "c": "i", "h": "h"}[t]
        for j in range(n):
            T.append("    E[%d] = start; E[%d].val.%s = (%s)((%s)start.val.%s + (%s)%d * (%s)delta.val.%s);" % (
                e + j, e + j, fld, "int32_t" if fld == "i" else "int64_t", "uint32_t" if fld == "i" else "uint64_t", fld,
                "uint32_t" if fld == "i" else "uint64_t", j, "uint32_t" if fld == "i" else "uint64_t", fld))
        T.append("    mk_rep(&K[%d], %d, 1); K[%d] = delta; K[%d] = start;" % (k, n, k + 1, k + 2))
        k += 3
    e += n
    for p in post:
        T.append("    mk(&E[%d], '%s'); K[%d] = E[%d];" % (e, p, k, e))
        e += 1
        k += 1
    # independent list X of E's shape, one element longer (used with lengths ne-1, ne, ne+1)
    x = 0
    for p in pre + [t] * n + post + [post[-1] if post else t]:
        T.append("    mk(&X[%d], '%s');" % (x, p))
        x += 1
    # a second, independent run (same prefix/suffix symbols): compressed K2 / expanded E2, run length n or n+1
    T.append("#ifndef N2\n#define N2 %d\n#endif" % n)
    T.append("    rtosc_arg_val_t start2, delta2; mk(&start2, '%s'); mk(&delta2, '%s');" % (t, t))
    e2 = k2 = 0
    for i_, p in enumerate(pre):
        T.append("    E2[%d] = E[%d]; K2[%d] = E[%d];" % (e2, i_, k2, i_))
        e2 += 1
        k2 += 1
    if kind == "const":
        T.append("    for(int j = 0; j < N2; j++) E2[%d + j] = start2;" % e2)
        T.append("    mk_rep(&K2[%d], N2, 0); K2[%d] = start2;" % (k2, k2 + 1))
        k2 += 2
    else:
        fld = {"i": "i", "c": "i", "h": "h"}[t]
        ut = "uint32_t" if fld == "i" else "uint64_t"
        it_ = "int32_t" if fld == "i" else "int64_t"
        T.append("    for(int j = 0; j < N2; j++) { E2[%d + j] = start2; E2[%d + j].val.%s = (%s)((%s)start2.val.%s + (%s)j * (%s)delta2.val.%s); }" % (e2, e2, fld, it_, ut, fld, ut, ut, fld))
        T.append("    mk_rep(&K2[%d], N2, 1); K2[%d] = delta2; K2[%d] = start2;" % (k2, k2 + 1, k2 + 2))
        k2 += 3
    for i_, p in enumerate(post):
        T.append("    E2[%d + N2] = E[%d]; K2[%d] = E[%d];" % (e2 + i_, len(pre) + n + i_, k2, len(pre) + n + i_))
        k2 += 1
    ne2 = "(%d + N2)" % (len(pre) + len(post))
    T.append("#if PART == 2")
    T.append('    CHECK(EQ(K, %d, K2, %d) == EQ(E, %d, E2, %s), "C16 equality of two compressed lists equals equality of their expansions");' % (nk, nk, ne, ne2))
    T.append('    CHECK(sgn(CMP(K, %d, K2, %d)) == sgn(CMP(E, %d, E2, %s)), "C16 order of two compressed lists equals order of their expansions");' % (nk, nk, ne, ne2))
    T.append('    CHECK(sgn(CMP(K2, %d, K, %d)) == sgn(CMP(E2, %s, E, %d)), "C16 order of two compressed lists equals order of their expansions (swapped)");' % (nk, nk, ne2, ne))
    T.append('    CHECK((CMP(K, %d, K2, %d) == 0) == EQ(K, %d, K2, %d), "C16 cmp==0 iff eq on compressed lists");' % (nk, nk, nk, nk))
    T.append("#endif\n#if PART == 3")
    for dl in (-1, 1):
        if ne + dl < 0:
            continue
        T.append('    CHECK(sgn(CMP(K, %d, X, %d)) == sgn(CMP(E, %d, X, %d)), "C16 order against a list of different length does not depend on compression");' % (nk, ne + dl, ne, ne + dl))
        T.append('    CHECK(sgn(CMP(X, %d, K, %d)) == sgn(CMP(X, %d, E, %d)), "C16 order against a list of different length does not depend on compression (swapped)");' % (ne + dl, nk, ne + dl, ne))
        T.append('    CHECK(EQ(K, %d, X, %d) == EQ(E, %d, X, %d), "C16 equality against a list of different length does not depend on compression");' % (nk, ne + dl, ne, ne + dl))
    T.append("#endif")
    T.append("#if PART == 1")
    T.append('    CHECK(EQ(E, %d, K, %d) && EQ(K, %d, E, %d), "C16 a run and its compressed form are equal");' % (ne, nk, nk, ne))
    T.append('    CHECK(CMP(E, %d, K, %d) == 0 && CMP(K, %d, E, %d) == 0, "C16 a run and its compressed form compare as 0");' % (ne, nk, nk, ne))
    T.append('    CHECK(sgn(CMP(E, %d, X, %d)) == sgn(CMP(K, %d, X, %d)), "C16 order against a third list does not depend on compression");' % (ne, ne, nk, ne))
    T.append('    CHECK(sgn(CMP(X, %d, E, %d)) == sgn(CMP(X, %d, K, %d)), "C16 order against a third list does not depend on compression (swapped)");' % (ne, ne, ne, nk))
    T.append('    CHECK(EQ(E, %d, X, %d) == EQ(K, %d, X, %d), "C16 equality against a third list does not depend on compression");' % (ne, ne, nk, ne))
    T.append("    { rtosc_arg_val_itr ie, ik; rtosc_arg_val_itr_init(&ie, E); rtosc_arg_val_itr_init(&ik, K); int cnt = 0;")
    T.append("      rtosc_arg_val_t t1, t2;")
    T.append("      while(ie.i < %d && ik.i < %d) {" % (ne, nk))
    T.append('          CHECK(rtosc_arg_vals_eq_single(rtosc_arg_val_itr_get(&ie, &t1), rtosc_arg_val_itr_get(&ik, &t2), 0), "C16 iteration yields the same values with and without compression");')
    T.append("          rtosc_arg_val_itr_next(&ie); rtosc_arg_val_itr_next(&ik); cnt++; }")
    T.append('      CHECK(ie.i == %d && ik.i == %d && cnt == %d, "C16 iteration yields the same number of values");' % (ne, nk, ne))
    T.append("    }")
    if t in "sSb" or any(x in "sSb" for x in pre + post):
        T.append("#endif")
        T.append('    WITNESS("C16 end");\n}')
        return "\n".join(T) + "\n"
    T.append("    for(int j = 0; j < 64; j++) { be[j] = nd_char(); bk[j] = be[j]; }")
    T.append('    { size_t le = rtosc_avmessage(be, 64, "/a", %d, E), lk = rtosc_avmessage(bk, 64, "/a", %d, K);' % (ne, nk))
    T.append('      CHECK(le == lk && le > 0, "C16 OSC message built from the list has the same length with and without compression");')
    T.append('      int same = 1; for(int j = 0; j < 64; j++) if((size_t)j < le && be[j] != bk[j]) same = 0;')
    T.append('      CHECK(same, "C16 OSC message built from the list is byte-identical with and without compression"); }')
    T.append("#endif")
    T.append('    WITNESS("C16 end");\n}')
    return "\n".join(T) + "\n"


def shapes(tier, seed):
    rnd = random.Random(seed)
    out = []
    for t in SCALARS:                                   # same-type scalars + semantic order
        out.append(("s_%s" % t, [("v", t)], [("v", t)], [("v", t)], True))
    mixed = ["iTf", "sSb", "ihd", "TFN", "tIm", "cri", "bsi", "NIT", "fdh"]
    for m in mixed if tier == "quick" else mixed + ["".join(rnd.choice(SCALARS) for _ in range(3)) for _ in range(40)]:
        out.append(("x_%s" % m, [("v", m[0])], [("v", m[1])], [("v", m[2])], False))
    # lists of different lengths (prefix relation) and types
    lists = [("ii", "i", "iii"), ("is", "is", "i"), ("sb", "sb", "s"), ("", "i", ""), ("Ti", "Fi", "T"), ("bb", "b", "bi"), ("hs", "hs", "hs"), ("ss", "ss", "ss"), ("fi", "fi", "f")]
    if tier == "thorough":
        lists += [tuple("".join(rnd.choice("ishbTf") for _ in range(rnd.randint(0, 4))) for _ in range(3)) for _ in range(60)]
    for a, b, c in lists:
        out.append(("l_%s_%s_%s" % (a or "0", b or "0", c or "0"), [("v", x) for x in a], [("v", x) for x in b], [("v", x) for x in c], False))
    # arrays
    arrs = [(("i", 1), ("i", 2), ("i", 0)), (("i", 2), ("i", 2), ("i", 2)), (("s", 1), ("s", 1), ("s", 2)), (("b", 1), ("b", 1), ("b", 1)),
            (("T", 0), ("i", 0), ("F", 0)), (("T", 1), ("F", 1), ("i", 1)), (("I", 1), ("T", 2, "TF"), ("F", 1)), (("T", 2, "TF"), ("T", 2, "FT"), ("T", 1, "T")),
            (("N", 1), ("T", 1), ("S", 1)), (("f", 1), ("f", 2), ("d", 1)), (("h", 0), ("h", 1), ("i", 0)), (("T", 0), ("F", 0), ("T", 1, "F"))]
    if tier == "thorough":
        ets = "isbTFINhf"
        for _ in range(80):
            tr = []
            for _ in range(3):
                t = rnd.choice(ets)
                n = rnd.randint(0, 3)
                tr.append((t, n, "".join(rnd.choice("TF") for _ in range(n))) if t in "TF" else (t, n))
            arrs.append(tuple(tr))
    for tr in arrs:
        def mk(x):
            if len(x) == 3:
                return [("a", "T" if x[2][:1] in ("T", "") else "F", x[1], ["T" if c == "T" else "F" for c in x[2]])] if False else [("a", x[2][0] if x[2] else x[0], x[1], list(x[2]))]
            return [("a", x[0], x[1])]
        nm = "a_" + "_".join("%s%d%s" % (x[0], x[1], x[2] if len(x) == 3 else "") for x in tr)
        out.append((nm, mk(tr[0]), mk(tr[1]), mk(tr[2]), False))
    # arrays inside lists
    out.append(("la_1", [("v", "i"), ("a", "i", 1)], [("v", "i"), ("a", "i", 2)], [("v", "i"), ("a", "i", 1), ("v", "s")], False))
    return out


def build(ctx):
    thorough = ctx.tier == "thorough"
    ctx.units = ["src/cpp/arg-val-cmp.c", "src/cpp/arg-val-itr.c", "src/cpp/arg-val-math.c", "src/cpp/arg-val.c", "src/cpp/arg-ext.c", "src/rtosc.c"]
    ctx.functions = ["rtosc_arg_vals_cmp", "rtosc_arg_vals_cmp_single", "rtosc_arg_vals_eq", "rtosc_arg_vals_eq_single", "rtosc_arg_vals_cmp_has_next",
                     "rtosc_arg_vals_eq_after_abort", "rtosc_arg_val_itr_init/get/next", "rtosc_arg_val_range_arg", "rtosc_arg_val_add/mult/from_int",
                     "rtosc_avmessage", "rtosc_amessage", "rtosc_av_* accessors"]
    names = ("arg-val-cmp", "arg-val-itr", "arg-val-math", "arg-val", "arg-ext")
    # one translation unit: harness + the real C units, lowered through clang -O1 (front end B);
    # src/rtosc.c (rtosc_amessage) is given to cbmc directly (front end A)
    ctx.write("gen/c16_units.h", "".join('#include "%s"\n' % vlib.unit(u) for u in names))
    lib = [ctx.unit("rtosc"), os.path.join(vlib.STUBS, "nd_cbmc.c"), os.path.join(vlib.STUBS, "libc_extra.c")]
    nlib = [vlib.unit("rtosc")]
    inc = ["-I" + ctx.wpath("gen")]
    for name, sa, sb, sc, order in shapes(ctx.tier, ctx.seed):
        h = ctx.write("gen/%s.c" % name, laws_text(sa, sb, sc, order))
        g = ctx.ir_translate(name, h, defines=inc)
        ctx.add(vlib.Query(name, [g] + lib, unwind=8, native_sources=[h] + nlib, native_flags=inc, objbits=12,
                           witness_optional="a<b|a==b",
                           descr={"laws": "reflexive, antisymmetric, transitive, cmp==0 iff eq" + (", semantic order" if order else ""),
                                  "a": repr(sa), "b": repr(sb), "c": repr(sc)}))
    runs = []
    for t in ("i", "h", "c"):
        for n in ((2, 4, 5) if not thorough else (1, 2, 3, 4, 5, 6)):
            runs.append((t, n, "delta", [], []))
    for t in ("i", "f", "T", "b", "h", "d", "m"):
        for n in ((2, 5) if not thorough else (1, 2, 4, 5, 6)):
            runs.append((t, n, "const", [], []))
    runs += [("i", 3, "delta", ["b"], ["i"]), ("i", 5, "const", ["i"], ["i"]), ("c", 3, "delta", [], ["i"]), ("b", 3, "const", ["i"], [])]
    for t, n, kind, pre, post in runs:
        nm = "r_%s%d%s_%s_%s" % (t, n, kind[0], "".join(pre) or "0", "".join(post) or "0")
        h = ctx.write("gen/%s.c" % nm, compress_text(t, n, kind, pre, post))
        strs = t in "sSb" or any(x in "sSb" for x in pre + post)
        us = ["strlen.0:12", "strcmp.0:6", "memcmp.0:6", "vsosc_null.0:12", "nreserved.0:12"] + ["rtosc_amessage.%d:12" % k for k in range(6)]
        for part, n2 in ((1, n), (2, n), (2, n + 1), (3, n)):
            if part == 2 and t in "TFNI":
                continue   # value-less types: nothing to distinguish two runs (and the query does not finish)
            defs = ["-DN2=%d" % n2, "-DPART=%d" % part]
            qn = "%s_p%d_n%d" % (nm, part, n2)
            msgpart = part == 1 and not strs
            q = ctx.add(vlib.Query(qn, ["@IR@"] + lib, defines=defs, unwind=70 if msgpart else 12, unwindset=us if msgpart else [],
                                   native_sources=[h] + nlib, native_flags=inc, objbits=12,
                                   descr={"compression": "%s run of %d x '%s'" % (kind, n, t), "prefix": pre, "suffix": post,
                                          "part": {1: "run vs compressed form vs third list, iteration, message bytes", 2: "two compressed lists (second run length %d)" % n2,
                                                   3: "compressed list vs lists one shorter / one longer"}[part]}))
            q.prepare = (lambda qn_, h_, defs_: (lambda q_: q_.sources.__setitem__(0, ctx.ir_translate(qn_, h_, defines=inc + defs_))))(qn, h, defs)
    ctx.bounds = {"values": "all 32/64-bit integers, all non-NaN floats/doubles, all time tags, strings of 0..2 chars, blobs of 0..2 bytes, all midi bytes",
                  "lists": "0..4 slots per list", "arrays": "length 0..2 (3 thorough)", "runs": "length 1..7, integer delta ranges (wrap-around arithmetic) and constant runs"}
    ctx.assumptions = ["floats and doubles are not NaN (the statement speaks of numeric order)", "string pointers are non-NULL",
                       "float_tolerance option 0 (default options)", "delta ranges only for integer types i, h, c (float steps round)"]
    ctx.outside = ["runs whose element type is a string (string order/equality laws are covered by the s_*, l_* families)", "message-bytes invariance for runs of strings/blobs (eq/cmp/iteration invariance is covered for them)", "lists longer than 4 slots, strings/blobs longer than 2", "infinite ranges (num == 0)", "nested arrays"]
