"""C07 validation of untrusted bytes -- cbmc on src/rtosc.c"""
import os
import vlib

H = os.path.join(vlib.HARN, "C07", "h_valid.c")
FIXED = {"i": 4, "f": 4, "c": 4, "r": 4, "m": 4, "h": 8, "t": 8, "d": 8, "T": 0, "F": 0, "N": 0, "I": 0, "[": 0, "]": 0, "x": 0}


def cstr(b):
    return '"' + "".join("\\%03o" % c for c in b) + '"'


def build(ctx):
    src = [H, ctx.unit("rtosc"), os.path.join(vlib.STUBS, "nd_cbmc.c")]
    nat = [H, vlib.unit("rtosc")]
    thorough = ctx.tier == "thorough"
    ctx.units = ["src/rtosc.c"]
    ctx.functions = ["rtosc_message_length", "rtosc_message_ring_length", "bundle_ring_length", "deref",
                     "rtosc_valid_message_p", "rtosc_argument_string", "rtosc_narguments", "rtosc_type",
                     "rtosc_argument", "arg_off", "arg_size", "extract_arg", "rtosc_itr_begin",
                     "rtosc_itr_next", "rtosc_itr_end", "has_reserved"]

    def add(name, n, defs, descr, wopt=None):
        ctx.add(vlib.Query(name, src, defines=["-DN=%d" % n] + defs, unwind=n + 4, native_sources=nat,
                           descr=dict(descr, n=n), witness_optional=wopt))

    def parts(name, n, defs, descr, kmax, wopt=None):
        add(name + "-p1", n, defs + ["-DPART=1"], dict(descr, part="length, validity, argument string, count"), wopt)
        for k in range(kmax):
            add(name + "-p2k%d" % k, n, defs + ["-DPART=2", "-DK=%d" % k],
                dict(descr, part="type/argument by index %d" % k), (wopt + "|" if wopt else "") + "with arguments")
        add(name + "-p3", n, defs + ["-DPART=3"], dict(descr, part="iterator"), wopt)

    # all bytes symbolic
    full_max = 12 if thorough else 8
    for n in range(1, full_max + 1):
        d = {"mode": "all %d bytes symbolic" % n}
        if n < 8:
            add("full-n%d" % n, n, ["-DPART=1"], d, wopt="valid message|with arguments")
        else:
            parts("full-n%d" % n, n, [], d, kmax=2 if n < 12 else 3, wopt=None if n >= 8 and n % 4 == 0 else "valid message|with arguments")
    # length function only, larger fully symbolic buffers
    for n in ([16] if not thorough else [16, 20, 24]):
        add("len-n%d" % n, n, ["-DLEN_ONLY"], {"mode": "length function, all bytes symbolic"})
    # bundle header fixed, remainder symbolic
    for n in ([20, 24] if not thorough else [20, 24, 28, 32]):
        add("bundle-n%d" % n, n, ["-DLEN_ONLY", "-DPREFIX=" + cstr(b"#bundle\0")],
            {"mode": "'#bundle\\0' + symbolic remainder, length function"})
    # structured: fixed 4-byte path and concrete tag string, symbolic payload
    tags = ["", "s", "b", "h", "ss", "sb", "bs", "bb", "ib", "bi", "[b]", "sT", "hs", "bh", "[i]", "Tm"]
    if thorough:
        tags += ["sss", "bbb", "sbs", "bsb", "ibs", "[s]b", "b[i]", "sib", "hbT", "Sbm", "tdb", "bIs", "x", "xs", "[[b]]",
                 "i", "f", "c", "r", "m", "t", "d", "S", "T", "F", "N", "I", "[", "]"]
    for t in tags:
        pre = b"/a\0\0," + t.encode()
        pre += b"\0" * (4 - len(pre) % 4)
        fixed = sum(FIXED.get(c, 0) for c in t)
        nvar = sum(1 for c in t if c in "sSb")
        room = fixed + nvar * (12 if thorough else 8)
        n = len(pre) + room
        nargs = sum(1 for c in t if c not in "[]")
        parts("tags-%s-n%d" % (t or "none", n), n, ["-DPREFIX=" + cstr(pre)],
              {"mode": "prefix '/a\\0\\0,%s' fixed, %d payload bytes symbolic" % (t, room)}, kmax=nargs,
              wopt=None if nargs else "with arguments")
    ctx.bounds = {"fully_symbolic_n_max": full_max, "structured_n_max": max(q.descr.get("n", 0) for q in ctx.queries),
                  "unwind": "2n+8 per loop (cbmc accumulates iterations of a while-loop over re-entries and repeated calls), with unwinding assertions (doubles as the termination check)"}
    ctx.assumptions = ["x86-64 LP64, -DNDEBUG (library assert() compiled out)",
                       "reference decoder treats unknown type tags as carrying no payload (as the library documents)",
                       "reference decoder does not inspect pad bytes after the type tags / string terminators",
                       "isprint() is cbmc's model of the C locale",
                       "union initialiser {0} zero-fills the whole object (gcc/clang behaviour; rewrite R1)"]
    ctx.outside = ["buffers longer than the listed n", "the ring (two-segment) form of rtosc_message_ring_length (C06)"]
