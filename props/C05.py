"""C05 path-pattern language -- cbmc on src/dispatch.c (+ rtosc_argument_string from src/rtosc.c)"""
import itertools
import os
import random
import vlib

H = os.path.join(vlib.HARN, "C05", "h_match.c")
LITS = ["a", "ab", "b", "volume"]
NUMS = [1, 2, 3, 10, 16, 128]
ALTS = [["a", "b"], ["ab", "c"], ["a", "bc", "d"], ["x", "yz"]]
TYPES = [None, [""], ["i"], ["i", "f"], ["", "i"], ["ii", "f"], ["T", "F"], ["s", "ii", "f"], ["if", "i"]]


def seg_text(s):
    if s[0] == "L":
        return s[1]
    if s[0] == "N":
        return "#%d" % s[1]
    return "{" + ",".join(s[1]) + "}"


def ok_seq(seq):
    for a, b in zip(seq, seq[1:]):
        if a[0] == "N" and b[0] == "N":
            return False
        if a[0] == "L" and b[0] == "L":
            return False
    return True


def nalt(cs):
    return sum(1 for c in cs for x in c if x[0] == "A")


def patterns(tier, seed):
    rnd = random.Random(seed)
    segs = [("L", l) for l in LITS[:3]] + [("N", n) for n in NUMS[:4]] + [("A", a) for a in ALTS[:3]]
    big = [("L", "volume"), ("N", 128), ("N", 16), ("A", ALTS[3])]
    comps = [c for n in (1, 2) for c in itertools.product(segs, repeat=n) if ok_seq(c)]
    comps3 = [c for c in itertools.product(segs + big, repeat=3) if ok_seq(c)]
    one = [([c], s) for c in comps for s in (False, True)]
    two = [([a, b], s) for a in comps for b in comps for s in (False, True)]
    three = [([c], s) for c in comps3 for s in (False, True)]
    rnd.shuffle(two)
    rnd.shuffle(three)
    cheap = [x for x in one if nalt(x[0]) == 0]
    alt1 = [x for x in one if nalt(x[0]) == 1]
    alt2 = [x for x in one if nalt(x[0]) == 2]
    two0 = [x for x in two if nalt(x[0]) == 0]
    two1 = [x for x in two if nalt(x[0]) == 1]
    two2 = [x for x in two if nalt(x[0]) >= 2]
    thr0 = [x for x in three if nalt(x[0]) == 0]
    thr1 = [x for x in three if nalt(x[0]) == 1]
    rnd.shuffle(alt1)
    if tier == "quick":
        sel = cheap + alt1[:18] + two0[:14] + two1[:5] + thr0[:6]
    else:
        sel = cheap + alt1 + two0[:80] + two1[:20] + thr0[:40]
    res = []
    for i, (cs, slash) in enumerate(sel):
        if tier == "quick":
            tys = [TYPES[(i * 5 + 1) % len(TYPES)]]
        else:
            tys = [TYPES[(i * 5 + 1) % len(TYPES)], TYPES[(i * 7 + 4) % len(TYPES)], TYPES[(i * 3) % len(TYPES)]]
        for t in tys:
            res.append((cs, slash, t))
    return res


def emit(cs, slash, types):
    flat = []
    for i, c in enumerate(cs):
        if i:
            flat.append(("L", "/"))
        flat += list(c)
    # merge adjacent literals
    merged = []
    for s in flat:
        if merged and merged[-1][0] == "L" and s[0] == "L":
            merged[-1] = ("L", merged[-1][1] + s[1])
        else:
            merged.append(s)
    pat = "".join(seg_text(s) for s in merged) + ("/" if slash else "")
    if types is not None:
        pat += ":" + ":".join(types)
    L = ['#define PATTERN "%s"' % pat, "static const seg_t SEGS[] = {"]
    for s in merged:
        if s[0] == "L":
            L.append('  {LIT, "%s", 0, 0, {0}},' % s[1])
        elif s[0] == "N":
            L.append("  {NUM, 0, %d, 0, {0}}," % s[1])
        else:
            L.append('  {ALT, 0, 0, %d, {%s}},' % (len(s[1]), ", ".join('"%s"' % a for a in s[1])))
    L.append("};\n#define NSEGS %d\n#define TRAILING_SLASH %d" % (len(merged), 1 if slash else 0))
    if types is None:
        L.append("#define HAS_TYPES 0\n#define NTYPES 0")
    else:
        L.append("#define HAS_TYPES 1\n#define NTYPES %d\nstatic const char *const TYPES[] = {%s};" % (len(types), ", ".join('"%s"' % t for t in types)))
    ntok = sum(len(x[1]) if x[0] == "L" else 1 for x in merged) + (1 if slash else 0)
    optlen = max([len(seg_text(x)) for x in merged if x[0] == "A"] or [0])
    minlen = sum(len(x[1]) if x[0] == "L" else (1 if x[0] == "N" else min(len(a) for a in x[1])) for x in merged) + (1 if slash else 0)
    tylen = max([len(t) for t in (types or [""])])
    info = dict(ntok=ntok, optlen=optlen, minlen=minlen, tylen=tylen)
    return pat, "\n".join(L) + "\n", info


def build(ctx):
    ctx.units = ["src/dispatch.c", "src/rtosc.c (rtosc_argument_string)"]
    ctx.functions = ["rtosc_match", "rtosc_match_path", "rtosc_match_options", "rtosc_match_number", "rtosc_match_args", "rtosc_argument_string"]
    src = [H, ctx.unit("dispatch"), ctx.unit("rtosc"), os.path.join(vlib.STUBS, "nd_cbmc.c"), os.path.join(vlib.STUBS, "atoi_model.c")]
    ctx.stubs = ["atoi(): stubs/atoi_model.c (value of the leading decimal digits, 32-bit wrap) instead of cbmc's strtol model"]
    nat = [H, vlib.unit("dispatch"), vlib.unit("rtosc")]
    seen = set()
    for i, (cs, slash, types) in enumerate(patterns(ctx.tier, ctx.seed)):
        pat, inc, info = emit(cs, slash, types)
        if pat in seen or info["minlen"] > 8:
            continue
        seen.add(pat)
        f = ctx.write("gen/p%04d.h" % i, inc)
        amax = min(10, info["minlen"] + 2)
        mp, op = info["ntok"] + 2, info["optlen"] + 2
        us = ["rtosc_match_path.2:%d" % mp, "rtosc_match_path.0:%d" % mp, "rtosc_match_path.1:%d" % (amax + 2)]
        us += ["rtosc_match_options.%d:%d" % (k, op) for k in range(4)]
        us += ["rtosc_match_args.0:%d" % (info["tylen"] + 3)]
        us += ["rtosc_match_number.0:%d" % (amax + 2), "rtosc_match_number.1:%d" % (amax + 2), "atoi.0:3", "atoi.1:%d" % (amax + 2)]
        us += ["rtosc_argument_string.0:%d" % (amax + 2), "rtosc_argument_string.1:%d" % (amax + 6)]
        ctx.add(vlib.Query("p%04d" % i, src, defines=['-DPATTERN_INC="%s"' % f, "-DAMAX=%d" % amax], unwind=amax + 16, unwindset=us,
                           native_sources=nat,
                           descr={"pattern": pat, "address": "%d symbolic bytes (any length 0..%d)" % (amax, amax),
                                  "type_tags": "3 symbolic bytes (any length 0..3)"}))
    ho = os.path.join(vlib.HARN, "C05", "h_options.c")
    groups = [["a", "b"], ["ab", "c"], ["a", "bc", "d"], ["x", "yz"], ["foo", "bar", "baz"], ["a"], ["ab", "cd", "e", "fgh"]]
    for gi, g in enumerate(groups if ctx.tier == "thorough" else groups[:5]):
        for tail in ("", "/x", "#3"):
            pat = "{" + ",".join(g) + "}" + tail
            ctx.add(vlib.Query("opt%d%s" % (gi, {"": "", "/x": "s", "#3": "n"}[tail]), [ho, ctx.unit("dispatch"), ctx.unit("rtosc"), os.path.join(vlib.STUBS, "nd_cbmc.c"), os.path.join(vlib.STUBS, "atoi_model.c")],
                               defines=['-DPATTERN="%s"' % pat, "-DALT_LIST=" + ",".join('"%s"' % a for a in g)], unwind=14,
                               native_sources=[ho, vlib.unit("dispatch"), vlib.unit("rtosc")],
                               descr={"unit": "rtosc_match_options", "pattern": pat, "message": "6 symbolic bytes"}))
    ctx.bounds = {"address": "every byte string up to the per-pattern bound", "type tag string": "every byte string of length 0..3",
                  "bytes after the type tag string": "3 arbitrary bytes", "address length": "0..min(10, shortest match + 2) symbolic bytes", "patterns": "generated from the documented grammar: literal, #N, {a,b,..}, multi-component, trailing '/', ':types' incl. the empty alternative"}
    ctx.assumptions = ["alternatives inside {..} are prefix-free (the matcher does not backtrack; the documented language does not promise it)",
                       "a literal following #N does not start with a digit",
                       "the ',' of the type tag string sits at a fixed 4-aligned offset after a NUL-filled address area (rtosc_argument_string skips any number of NULs; canonical layouts are C01)",
                       "type strings that only extend an alternative are left unconstrained (the statement permits either)",
                       "cbmc's models of isdigit and atoi"]
    ctx.outside = ["'*' and other OSC wildcard patterns (not in the documented form)", "indices with more than 8 digits", "patterns beyond those generated"]
