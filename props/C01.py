"""C01 OSC wire format: spec-exact encoding, lossless decoding -- cbmc on src/rtosc.c, src/cpp/arg-val*.c"""
import os
import vlib
import msggen as G

AL, SL, BL = 5, 5, 5


def harness_text(tags, lens=None, conc_addr=False):
    decl, fill, ref, va, slots = G.gen_inputs(tags, SL, BL, lens)
    nargs = len(slots)
    nslots = len([1 for x in slots if x[2] is not None])
    cap = G.max_need(tags, AL, SL, BL)
    L = []
    L.append('#include <rtosc/rtosc.h>\n#include <rtosc/arg-val.h>\n#include <string.h>\n#include "nd.h"\n#include "msg_ref.h"')
    L.append("#define CAP %d\n#define AL %d" % (cap, AL))
    L.append("static char buf[CAP]; static unsigned char ref[CAP + 8]; static char buf2[CAP];")
    L.append("static rtosc_arg_t args[%d]; static char addr[AL + 1];" % max(nslots, 1))
    L.append('static const char TAGS[] = "%s";' % tags)
    L += decl
    L.append("void harness(void)\n{")
    L.append("#ifdef ALEN\n    unsigned alen = ALEN;\n#else\n    unsigned alen = (unsigned)nd_range(1, AL);\n#endif")
    if conc_addr:
        L.append("    for(unsigned j = 0; j < AL; j++) addr[j] = j < alen ? (j ? (char)(96 + j) : (char)47) : 0; /* concrete address text */\n    addr[AL] = 0;")
    else:
        L.append("    for(unsigned j = 0; j < AL; j++) { char c = nd_char(); if(j < alen) { ASSUME(c != 0); addr[j] = c; } else addr[j] = 0; }\n    addr[AL] = 0;")
    L += ["    " + f for f in fill]
    L.append("    for(unsigned j = 0; j < CAP; j++) { buf[j] = nd_char(); buf2[j] = buf[j]; } /* destination holds arbitrary stale bytes */")
    L.append("    unsigned p = 0;\n    for(unsigned j = 0; j < alen; j++) ref[p++] = (unsigned char)addr[j];\n    p = ref_pad(ref, p);\n    ref[p++] = ',';")
    for t in tags:
        L.append("    ref[p++] = '%s';" % t)
    L.append("    p = ref_pad(ref, p);")
    L += ["    " + r for r in ref]
    L.append("    const unsigned R = p;")
    L.append("    RT_BEGIN();")
    if lens is None:
        L.append("    size_t r = rtosc_amessage(buf, CAP, addr, TAGS, args);")
    else:
        L.append("    /* decode side: the message is the reference encoding (part 1 shows the constructors produce exactly these bytes) */")
        L.append("    size_t r = R; for(unsigned j = 0; j < CAP; j++) if(j < R) buf[j] = (char)ref[j];")
    L.append("#if PART == 1")
    L.append('    CHECK(r == R, "C01 amessage returns the length of the OSC 1.0 encoding");')
    L.append('    { int same = 1; for(unsigned j = 0; j < CAP; j++) if(j < R && (unsigned char)buf[j] != ref[j]) same = 0;\n      CHECK(same, "C01 amessage bytes equal the OSC 1.0 reference encoding"); }')
    L.append("#elif PART == 6")
    L.append("    ASSUME(r == R);")
    L.append('    CHECK(rtosc_message_length(buf, R) == R, "C01 message-length function reports the same length (exact size)");')
    L.append('    CHECK(rtosc_message_length(buf, CAP) == R, "C01 message-length function reports the same length (larger buffer)");')
    L.append('    CHECK(rtosc_amessage(0, 0, addr, TAGS, args) == R, "C01 NULL-buffer size query equals the length");')
    L.append("#elif PART == 2")
    L.append("    ASSUME(r == R);")
    L.append('    CHECK(strcmp(rtosc_argument_string(buf), TAGS) == 0, "C01 argument string equals the type tags");')
    L.append('    CHECK(rtosc_narguments(buf) == %d, "C01 argument count equals the number of value tags");' % nargs)
    for t, k, a in slots:
        L.append('    CHECK(rtosc_type(buf, %d) == \'%s\', "C01 type by index");' % (k, t))
        L.append("    { rtosc_arg_t a = rtosc_argument(buf, %d);" % k)
        L += ["      " + c for c in G.arg_check(t, k, "a", "C01 argument by index", a)]
        L.append("    }")
    L.append("#elif PART == 3")
    L.append("    ASSUME(r == R);")
    L.append("    { rtosc_arg_itr_t it = rtosc_itr_begin(buf); unsigned cnt = 0;")
    for t, k, a in slots:
        L.append('      CHECK(!rtosc_itr_end(it), "C01 iterator yields as many values as the count");')
        L.append("      { rtosc_arg_val_t av = rtosc_itr_next(&it); cnt++;")
        L.append('        CHECK(av.type == \'%s\', "C01 iterator type");' % t)
        L += ["        " + c for c in G.arg_check(t, k, "av.val", "C01 iterator value", a)]
        L.append("      }")
    L.append('      CHECK(rtosc_itr_end(it), "C01 iterator ends after the last value");')
    L.append('      CHECK(cnt == rtosc_narguments(buf), "C01 count equals number of iterator yields"); }')
    L.append("#elif PART == 4")
    L.append("    size_t r2 = rtosc_message(buf2, CAP, addr, TAGS%s);" % ("".join(", " + v for v in va)))
    L.append('    CHECK(r2 == R, "C01 varargs constructor returns the OSC length");')
    L.append('    { int same = 1; for(unsigned j = 0; j < CAP; j++) if(j < R && (unsigned char)buf2[j] != ref[j]) same = 0;\n      CHECK(same, "C01 varargs constructor bytes equal the reference encoding"); }')
    L.append("#elif PART == 5")
    L.append("    static rtosc_arg_val_t avs[%d];" % max(nargs, 1))
    for t, k, a in slots:
        if a is None:
            L.append("    avs[%d].type = '%s'; avs[%d].val.h = nd_i64(); avs[%d].val.T = ('%s' == 'T');" % (k, t, k, k, t))
        else:
            L.append("    avs[%d].type = '%s'; avs[%d].val = args[%d];" % (k, t, k, a))
    L.append("    size_t r3 = rtosc_avmessage(buf2, CAP, addr, %d, avs);" % nargs)
    L.append('    CHECK(r3 == R, "C01 arg-value-list constructor returns the OSC length");')
    L.append('    { int same = 1; for(unsigned j = 0; j < CAP; j++) if(j < R && (unsigned char)buf2[j] != ref[j]) same = 0;\n      CHECK(same, "C01 arg-value-list constructor bytes equal the reference encoding"); }')
    L.append("#endif")
    L.append("    RT_END();")
    L.append('    WITNESS("C01 end");\n}')
    return "\n".join(L) + "\n", cap, nargs


PARTS = {1: "argument-array constructor vs reference encoder", 6: "length function, NULL-buffer size query",
         2: "accessors by index", 3: "iterator", 4: "varargs constructor", 5: "argument-value-list constructor"}


def build(ctx):
    thorough = ctx.tier == "thorough"
    ctx.units = ["src/rtosc.c", "src/cpp/arg-val.c", "src/cpp/arg-val-itr.c", "src/cpp/arg-val-math.c", "src/cpp/arg-ext.c"]
    ctx.functions = ["rtosc_amessage", "vsosc_null", "rtosc_message", "rtosc_vmessage", "rtosc_v2args", "nreserved", "has_reserved",
                     "rtosc_argument_string", "rtosc_narguments", "rtosc_type", "rtosc_argument", "arg_start", "arg_size",
                     "arg_off", "extract_arg", "rtosc_itr_begin", "rtosc_itr_next", "rtosc_itr_end", "rtosc_message_length",
                     "rtosc_message_ring_length", "rtosc_avmessage", "rtosc_arg_val_itr_init/get/next"]
    lib = [ctx.unit("rtosc")]
    libav = [ctx.unit("arg-val"), ctx.unit("arg-val-itr"), ctx.unit("arg-val-math"), ctx.unit("arg-ext"), ctx.unit("arg-val-cmp")]
    nlib = [vlib.unit("rtosc")]
    nlibav = [vlib.unit(u) for u in ("arg-val", "arg-val-itr", "arg-val-math", "arg-ext", "arg-val-cmp")]
    nd = os.path.join(vlib.STUBS, "nd_cbmc.c")
    import itertools, random
    rnd = random.Random(ctx.seed + 1)
    for tags in G.tag_sets(ctx.tier, ctx.seed):
        safe = "".join(c if c.isalnum() else ("L" if c == "[" else "R") for c in tags) or "none"
        # --- encode side: symbolic lengths -------------------------------------------------
        text, cap, nargs = harness_text(tags)
        h = ctx.write("gen/h_%s.c" % safe, text)
        alens = [None] if len(tags) <= 1 else ([1 + (sum(map(ord, tags)) % 4)] if not thorough else [1 + (sum(map(ord, tags)) % 4), 1 + ((sum(map(ord, tags)) + 2) % 4)])
        for part, alen in [(p_, a_) for p_ in (1, 4, 5) for a_ in alens]:
            if part == 5 and ("[" in tags or "]" in tags):
                continue
            defs = ["-DPART=%d" % part] + (["-DALEN=%d" % alen] if alen else [])
            if part == 4:
                defs.append("-DNO_NAN")
            avl = part == 5
            ctx.add(vlib.Query("%s-p%d%s" % (safe, part, "-a%d" % alen if alen else ""), [h] + lib + (libav if avl else []) + [nd],
                               defines=defs, unwind=cap + 3, native_sources=[h] + nlib + (nlibav if avl else []),
                               descr={"tags": tags, "part": PARTS[part], "capacity": cap,
                                      "address_length": alen or "symbolic 1..%d" % AL, "lengths": "symbolic"}))
        # --- decode side: concrete lengths, symbolic contents ------------------------------
        slots = G.var_slots(tags)
        combos = list(itertools.product(*[range(0, SL + 1) for _ in slots]))
        limit = 36
        if len(combos) > limit:
            combos = rnd.sample(combos, 8 if not thorough else 16)
        elif thorough and len(combos) > 12 and len(tags) == 2 and not all(c in "ifhdmsbT[]" for c in tags):
            combos = rnd.sample(combos, 12)   # non-representative pairs: sample the length combinations
        for ci, combo in enumerate(combos):
            lens = dict(zip(slots, combo))
            conc = len(tags) > 1
            text, cap, nargs = harness_text(tags, lens, conc_addr=conc)
            lname = "".join(str(c) for c in combo)
            h = ctx.write("gen/h_%s_l%s.c" % (safe, lname), text)
            for part, alen in [(p_, a_) for p_ in (6, 2, 3) for a_ in ([1 + (ci + len(tags)) % 4] if conc else range(1, AL + 1))]:
                ctx.add(vlib.Query("%s-l%s-p%d-a%d" % (safe, lname or "x", part, alen), [h] + lib + [nd],
                                   defines=["-DPART=%d" % part, "-DALEN=%d" % alen], unwind=cap + 3, native_sources=[h] + nlib,
                                   descr={"tags": tags, "part": PARTS[part], "capacity": cap, "address_length": alen,
                                          "address_bytes": "concrete" if conc else "symbolic", "lengths": list(combo)}))
    ctx.bounds = {"address_length": "1..%d symbolic (every length mod 4)" % AL, "string_length": "0..%d symbolic" % SL,
                  "blob_length": "0..%d symbolic, data pointer NULL or not" % BL,
                  "type_tag_strings": "quick: all of length<=1 over the 17 tags, length 2 over one representative per code path, 18 longer; thorough: all length<=2, length 3 over representatives, 60 random up to length 10",
                  "values": "all bit patterns of every numeric type"}
    ctx.assumptions = ["destination buffer holds arbitrary stale bytes before the call",
                       "varargs path: float arguments are not NaN (default promotion float->double->float may quiet a signalling NaN)",
                       "arg-value-list constructor: flat lists only (the library defines no array mapping for it); ranges are C16",
                       "x86-64 LP64, -DNDEBUG"]
    ctx.outside = ["addresses longer than %d, strings/blobs longer than %d bytes" % (AL, SL), "tag strings beyond those enumerated"]
