"""C14 parameter ports clamp and report -- port-sugar.h callbacks (real macros) via the IR route"""
import os
import vlib

KINDS = {1: "rParamI [-5,5]", 3: "rParam (char, [0,127], driven with -128..127)", 4: "rParamF [-3.5,20.25]", 5: "rToggle",
         6: "rOption (integer argument)", 11: "rOption (symbol argument)", 10: "rString(4)", 7: "rArrayI[4] [0,9]", 8: "rArrayF[3] [0,1]", 9: "rArrayT[3]"}
# kind 2 (no bounds) exists in the harness but is not run (cbmc error)


def build(ctx):
    ctx.units = ["include/rtosc/port-sugar.h callbacks + src/cpp/ports.cpp (MetaContainer, enum_key) via LLVM IR", "src/rtosc.c, src/dispatch.c directly"]
    ctx.functions = ["rParamCb", "rParamICb", "rParamFCb", "rToggleCb", "rOptionCb", "rArrayICb", "rArrayFCb", "rArrayTCb", "rStringCb", "rLIMIT", "rCAPPLY", "rBOIL(S)_BEGIN",
                     "Port::MetaContainer::operator[]", "enum_key", "rtosc_argument", "rtosc_argument_string", "rtosc_vmessage (through the recording reply/broadcast)"]
    inc = ['-DREPO_PORTS="%s/src/cpp/ports.cpp"' % vlib.REPO]
    rt = [os.path.join(vlib.STUBS, f) for f in ("cxxrt.c", "nd_cbmc.c", "libc_extra.c", "rtosc_shim.c", "fmt_stub.c", "atoi_model.c", "atof_model.c")] + [ctx.unit("rtosc"), ctx.unit("dispatch")]
    h = os.path.join(vlib.HARN, "C14", "h_param.cpp")
    for k, what, query, vt, idx in [(k_, w_, q_, v_, i_) for k_, w_ in KINDS.items() for q_ in (0, 1) for v_ in ((0, 1) if k_ in (5, 9, 11) and not q_ else (0,))
                                   for i_ in ({7: (0, 3), 8: (0, 2), 9: (1,)}.get(k_, (0,))) if not (k_ in (5, 9) and q_)]:
        defs = ["-DKIND=%d" % k, "-DQUERY=%d" % query, "-DVT=%d" % vt, "-DIDX=%d" % idx]
        name = "kind%02d-%s%s%s" % (k, "query" if query else "set", "-v%d" % vt if k in (5, 9, 11) and not query else "", "-i%d" % idx if k in (7, 8, 9) else "")
        q = ctx.add(vlib.Query(name, ["@IR@"] + rt, defines=defs, unwind=24, objbits=12, native_sources=[h], native_cxx=True, native_flags=inc + defs,
                               native_lib_exclude=["ports.cpp"], native_c_sources=[os.path.join(vlib.STUBS, "rtosc_shim.c")],
                               unwindset=["strlen.0:20", "strcmp.0:20", "atoi.0:4", "atoi.1:8", "atof.0:4", "atof.1:8", "atof.2:8"],
                               descr={"port": what, "incoming value": "symbolic over the storage type", "stored state": "symbolic", "message": "query (no arguments)" if query else "set"}))
        q.prepare = (lambda name_, defs_: (lambda q_: q_.sources.__setitem__(0, ctx.ir_translate(name_, h, cxx=True, defines=inc + defs_))))(name, defs)
        if k == 4 and not query:
            defs2 = defs + ["-DFLOAT_SMALL"]
            name2 = name + "-small"
            q2 = ctx.add(vlib.Query(name2, ["@IR@"] + rt, defines=defs2, unwind=24, objbits=12, native_sources=[h], native_cxx=True, native_flags=inc + defs2,
                                    native_lib_exclude=["ports.cpp"], native_c_sources=[os.path.join(vlib.STUBS, "rtosc_shim.c")],
                                    unwindset=["strlen.0:20", "strcmp.0:20", "atoi.0:4", "atoi.1:8", "atof.0:4", "atof.1:8", "atof.2:8"],
                                    descr={"port": what, "incoming value": "floats with |x| < 1e9 (variant)", "stored state": "symbolic", "message": "set"}))
            q2.prepare = (lambda name_, defs_: (lambda q_: q_.sources.__setitem__(0, ctx.ir_translate(name_, h, cxx=True, defines=inc + defs_))))(name2, defs2)
    ctx.bounds = {"port kinds": list(KINDS.values()), "values": "every int32 / every non-NaN float / -128..127 for char-backed kinds / 5-byte strings", "array index": "every valid index"}
    ctx.assumptions = ["callbacks are invoked with d.loc = full address, d.port = own port, d.obj = object (what C04 states dispatch provides)",
                       "recording RtData subclass overrides the variadic reply/broadcast and encodes into 64-byte buffers with the real rtosc_vmessage",
                       "atoi/atof environment models for the metadata literals; floats are not NaN"]
    ctx.stubs = ["stubs/cxxrt.c", "stubs/atoi_model.c", "stubs/atof_model.c", "stubs/rtosc_shim.c (ABI shims)"]
    ctx.outside = ["option symbols that name no option or are symbolic strings, rParamI without bounds, rToggle/rArrayT query", "rArrayOption, rParams", "array indices other than first/last (rArrayI, rArrayF) and the middle one (rArrayT)", "ranges other than those listed", "sequences of sets (single step from an arbitrary stored state is covered)"]
