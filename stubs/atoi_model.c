/* environment model: atoi for strings that start with a digit (the only way dispatch.c calls it);
   mathematical value of the leading decimal digits, wrapping like a 32-bit accumulation */
int atoi(const char *s)
{
    unsigned v = 0;
    while(*s == ' ' || (*s >= 9 && *s <= 13)) s++;
    int neg = 0;
    if(*s == '-') { neg = 1; s++; } else if(*s == '+') s++;
    while(*s >= '0' && *s <= '9') { v = v * 10u + (unsigned)(*s - '0'); s++; }
    return neg ? -(int)v : (int)v;
}
/* clang -O1 rewrites atoi(s) as (int)strtol(s, NULL, 10); only that form is modelled */
long strtol(const char *s, char **end, int base) { (void)end; (void)base; return (long)atoi(s); }
