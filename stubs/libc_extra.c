/* environment models missing from cbmc's built-in library */
#include <string.h>
/* clang lowers `memcmp(a,b,n) == 0` to bcmp */
int bcmp(const void *a, const void *b, size_t n) { return memcmp(a, b, n); }
/* cbmc 6.11 has no model of strstr */
char *strstr(const char *h, const char *n)
{
    if(!*n) return (char *)h;
    for(; *h; h++) {
        const char *a = h, *b = n;
        while(*a && *b && *a == *b) { a++; b++; }
        if(!*b) return (char *)h;
    }
    return 0;
}
