/* environment models missing from cbmc's built-in library */
#include <string.h>
/* clang lowers `memcmp(a,b,n) == 0` to bcmp */
int bcmp(const void *a, const void *b, size_t n) { return memcmp(a, b, n); }
