/* environment models: libm functions used by the library */
#include <math.h>
/* roundf: round half away from zero -- exact for |x| < 2^23, identity beyond */
float roundf(float x)
{
    if(!(x == x)) return x;
    if(x >= 8388608.0f || x <= -8388608.0f) return x;
    int i = (int)x;                 /* truncation toward zero */
    float f = (float)i;
    float d = x - f;
    if(d >= 0.5f) return f + 1.0f;
    if(d <= -0.5f) return f - 1.0f;
    return f;
}
