/* native counterparts of stubs/cxxrt.c for compiling tools/ll2c.py output with gcc (schedule replays) */
#include <stdlib.h>
#include <stdint.h>
typedef char *P;
P _Znwm(uint64_t n) { return (P)calloc(1, n ? n : 1); }
P _Znam(uint64_t n) { return (P)calloc(1, n ? n : 1); }
void _ZdlPv(P p) { (void)p; }
void _ZdaPv(P p) { (void)p; }
void _ZdlPvm(P p, uint64_t n) { (void)p; (void)n; }
uint32_t __cxa_atexit(P a, P b, P c) { (void)a; (void)b; (void)c; return 0; }
void __CPROVER_assume(int c) { if(!c) { extern void v_assume_fail(const char *); v_assume_fail("assume"); } }
void __CPROVER_assert(int c, const char *m) { extern void v_assert_fail(const char *); if(!c && !(m[0] == 'W' && m[1] == 'I' && m[2] == 'T')) v_assert_fail(m); }
uint8_t __dso_handle;
P ll_byte_alloc(uint64_t n) { return (P)calloc(1, n ? n : 1); }
