/* symbolic-input log for cbmc runs */
#include <stdint.h>
#ifndef ND_MAX
#define ND_MAX 256
#endif
uint64_t ND_LOG[ND_MAX];
unsigned ND_N;
uint64_t nondet_uint64(void);
uint64_t nd_raw(void)
{
    uint64_t v = nondet_uint64();
    __CPROVER_assert(ND_N < ND_MAX, "ND_LOG capacity");
    ND_LOG[ND_N++] = v;
    return v;
}

/* C03 monitor: set by the harnesses around the realtime part */
unsigned int verif_rt_section;
#include <stddef.h>
void *malloc(size_t n) { __CPROVER_assert(!verif_rt_section, "C03 heap allocation (malloc) inside the realtime section"); return __CPROVER_allocate(n, 0); }
void *calloc(size_t a, size_t b) { __CPROVER_assert(!verif_rt_section, "C03 heap allocation (calloc) inside the realtime section"); return __CPROVER_allocate(a * b, 1); }
void *realloc(void *p, size_t n) { __CPROVER_assert(!verif_rt_section, "C03 heap allocation (realloc) inside the realtime section"); (void)p; return __CPROVER_allocate(n, 0); }
void free(void *p) { __CPROVER_assert(!verif_rt_section, "C03 heap deallocation (free) inside the realtime section"); (void)p; }
int pthread_mutex_lock(void *m) { __CPROVER_assert(!verif_rt_section, "C03 mutex taken inside the realtime section"); (void)m; return 0; }
