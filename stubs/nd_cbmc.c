/* symbolic-input log for cbmc runs */
#include <stdint.h>
#ifndef ND_MAX
#define ND_MAX 256
#endif
uint64_t ND_LOG[ND_MAX];
unsigned ND_N;
uint64_t nondet_uint64(void);
uint64_t nd_raw(void)
{
    uint64_t v = nondet_uint64();
    __CPROVER_assert(ND_N < ND_MAX, "ND_LOG capacity");
    ND_LOG[ND_N++] = v;
    return v;
}
