/* environment model: atof for plain decimal literals ([-+]digits[.digits]) as they occur in port
 * metadata; digits and 10^k are exact in double for the short literals used, so the single
 * division is correctly rounded like glibc's result */
double atof(const char *s)
{
    while(*s == ' ') s++;
    int neg = 0;
    if(*s == '-') { neg = 1; s++; } else if(*s == '+') s++;
    double num = 0.0, den = 1.0;
    while(*s >= '0' && *s <= '9') { num = num * 10.0 + (double)(*s - '0'); s++; }
    if(*s == '.') { s++; while(*s >= '0' && *s <= '9') { num = num * 10.0 + (double)(*s - '0'); den *= 10.0; s++; } }
    double v = num / den;
    return neg ? -v : v;
}
/* clang -O1 rewrites atof(s) as strtod(s, NULL) */
double strtod(const char *s, char **end) { (void)end; return atof(s); }
