/* environment: formatting/logging get empty bodies where formatting is not the subject */
#include <stddef.h>
int snprintf(char *s, size_t n, const char *fmt, ...) { if(n) s[0] = 0; return 0; }
