/* nd.h -- harness vocabulary shared by the cbmc build, the IR route and the
 * native replay build.  nd_*() = symbolic input (logged in ND_LOG so that a
 * counterexample can be replayed natively in call order).                  */
#ifndef VERIF_ND_H
#define VERIF_ND_H
#include <stdint.h>
#include <stddef.h>
#ifdef __cplusplus
extern "C" {
#endif
uint64_t nd_raw(void);
void v_assert_fail(const char *msg);
void v_assume_fail(const char *msg);
#if defined(VERIF_IR) && !defined(REPLAY)
void __CPROVER_assert(int c, const char *msg);
void __CPROVER_assume(int c);
void __ll_global_ctors(void);   /* emitted by tools/ll2c.py: runs the module's static constructors */
#define VERIF_INIT() __ll_global_ctors()
#else
#define VERIF_INIT() do { } while(0)
#endif
#ifdef __cplusplus
}
#endif
#if (defined(__CPROVER__) || defined(VERIF_IR)) && !defined(REPLAY)
#define CHECK(c, msg) __CPROVER_assert(!!(c), msg)
#define ASSUME(c) __CPROVER_assume(!!(c))
#define WITNESS(msg) __CPROVER_assert(0, "WITNESS " msg)
#else
#define CHECK(c, msg) do { if(!(c)) v_assert_fail(msg); } while(0)
#define ASSUME(c) do { if(!(c)) v_assume_fail(#c); } while(0)
#define WITNESS(msg) do { } while(0)
#endif
/* realtime section: between RT_BEGIN and RT_END no allocator / mutex stub may be reached (C03) */
#ifdef __cplusplus
extern "C" unsigned int verif_rt_section;
#else
extern unsigned int verif_rt_section;
#endif
#define RT_BEGIN() (verif_rt_section = 1)
#define RT_END() (verif_rt_section = 0)
#define nd_u8()   ((uint8_t)nd_raw())
#define nd_i8()   ((int8_t)nd_raw())
#define nd_char() ((char)nd_raw())
#define nd_u16()  ((uint16_t)nd_raw())
#define nd_i32()  ((int32_t)nd_raw())
#define nd_u32()  ((uint32_t)nd_raw())
#define nd_i64()  ((int64_t)nd_raw())
#define nd_u64()  ((uint64_t)nd_raw())
#define nd_bool() ((int)(nd_raw() & 1))
#define nd_size() ((size_t)nd_raw())
static inline float nd_float(void) { union { uint32_t u; float f; } x; x.u = nd_u32(); return x.f; }
static inline double nd_double(void) { union { uint64_t u; double f; } x; x.u = nd_u64(); return x.f; }
/* nd in [lo,hi] */
static inline int nd_range(int lo, int hi) { int v = nd_i32(); ASSUME(v >= lo && v <= hi); return v; }
#endif
