#ifndef VERIF_SHIM_H
#define VERIF_SHIM_H
#include <stdint.h>
#ifdef __cplusplus
extern "C" {
#endif
int32_t v_arg_i(const char *msg, unsigned idx);
float v_arg_f(const char *msg, unsigned idx);
int64_t v_arg_h(const char *msg, unsigned idx);
const char *v_arg_s(const char *msg, unsigned idx);
int v_arg_T(const char *msg, unsigned idx);
#ifdef __cplusplus
}
#endif
#endif
