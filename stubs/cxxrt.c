/* C++ runtime environment stubs for cbmc (trusted base) */
#include <stdlib.h>
#include <stdint.h>
typedef char *P;
#define POOLW 4096
static P pool__[POOLW]; static uint64_t pool_top__;
extern unsigned int verif_rt_section;
P _Znwm(uint64_t n){ __CPROVER_assert(!verif_rt_section, "C03 heap allocation (operator new) inside the realtime section"); uint64_t w = (n + 7) / 8; if(!w) w = 1; __CPROVER_assert(pool_top__ + w <= POOLW, "verif heap pool exhausted"); P p = (P)&pool__[pool_top__]; pool_top__ += w; return p; }
P _Znam(uint64_t n){ return _Znwm(n); }
void _ZdlPv(P p){ __CPROVER_assert(!verif_rt_section, "C03 heap deallocation (operator delete) inside the realtime section"); }
void _ZdaPv(P p){ __CPROVER_assert(!verif_rt_section, "C03 heap deallocation (operator delete[]) inside the realtime section"); }
void _ZdlPvm(P p, uint64_t n){ __CPROVER_assert(!verif_rt_section, "C03 heap deallocation (sized operator delete) inside the realtime section"); }
uint32_t __cxa_atexit(P a, P b, P c){ return 0; }
uint32_t __cxa_guard_acquire(P g){ return *g == 0; }
void __cxa_guard_release(P g){ *g = 1; }
#define THROW(name, ...) void name(__VA_ARGS__){ __CPROVER_assert(0, "c++ exception: " #name); __CPROVER_assume(0); }
THROW(_ZSt25__throw_bad_function_callv, void)
THROW(_ZSt20__throw_length_errorPKc, P m)
THROW(_ZSt19__throw_logic_errorPKc, P m)
THROW(_ZSt28__throw_bad_array_new_lengthv, void)
THROW(_ZSt17__throw_bad_allocv, void)
THROW(_ZSt24__throw_out_of_range_fmtPKcz, P m, ...)
void _ZNSt8ios_base4InitC1Ev(P t){}
void _ZNSt8ios_base4InitD1Ev(P t){}

/* raw byte storage of run-time size (new char[n]): fixed 64-byte typed chunks, so that later addresses stay concrete */
#define BYTE_CHUNKS 24
static char bytepool__[BYTE_CHUNKS][64]; static unsigned bytepool_top__;
P ll_byte_alloc(uint64_t n) { __CPROVER_assert(!verif_rt_section, "C03 heap allocation (operator new[]) inside the realtime section"); __CPROVER_assert(n <= 64, "verif: byte allocation larger than the 64-byte chunk"); __CPROVER_assert(bytepool_top__ < BYTE_CHUNKS, "verif: byte chunk pool exhausted"); return bytepool__[bytepool_top__++]; }
