/* native replay: nd_raw() returns the logged values in call order */
#include <stdint.h>
#include <stdio.h>
#include <stdlib.h>
#include <string.h>
unsigned int verif_rt_section;
static uint64_t *vals; static size_t nvals, cur; static int loaded;
static void load(void)
{
    loaded = 1;
    const char *p = getenv("ND_REPLAY");
    if(!p) return;
    FILE *f = fopen(p, "r");
    if(!f) return;
    size_t cap = 1024; vals = malloc(cap * sizeof *vals);
    unsigned long long v;
    while(fscanf(f, "%llu", &v) == 1) {
        if(nvals == cap) { cap *= 2; vals = realloc(vals, cap * sizeof *vals); }
        vals[nvals++] = v;
    }
    fclose(f);
}
uint64_t nd_raw(void)
{
    if(!loaded) load();
    if(cur < nvals) return vals[cur++];
    cur++;
    return 0;
}
void v_assert_fail(const char *msg) { printf("ASSERT-FAIL %s\n", msg); fflush(stdout); exit(1); }
void v_assume_fail(const char *msg) { printf("ASSUME-FAIL %s\n", msg); fflush(stdout); exit(0); }
#ifndef ND_NO_MAIN
void harness(void);
int main(int argc, char **argv) { harness(); printf("REPLAY-END ok\n"); return 0; }
#endif
