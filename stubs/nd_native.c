/* native replay: nd_raw() returns the logged values in call order */
#include <stdint.h>
#include <stdio.h>
#include <stdlib.h>
#include <string.h>
unsigned int verif_rt_section;
static uint64_t *vals; static size_t nvals, cur; static int loaded;
static void load(void)
{
    loaded = 1;
    const char *p = getenv("ND_REPLAY");
    if(!p) return;
    FILE *f = fopen(p, "r");
    if(!f) return;
    size_t cap = 1024; vals = malloc(cap * sizeof *vals);
    unsigned long long v;
    while(fscanf(f, "%llu", &v) == 1) {
        if(nvals == cap) { cap *= 2; vals = realloc(vals, cap * sizeof *vals); }
        vals[nvals++] = v;
    }
    fclose(f);
}
uint64_t nd_raw(void)
{
    if(!loaded) load();
    if(cur < nvals) return vals[cur++];
    cur++;
    return 0;
}
void v_assert_fail(const char *msg) { printf("ASSERT-FAIL %s\n", msg); fflush(stdout); exit(1); }
void v_assume_fail(const char *msg) { printf("ASSUME-FAIL %s\n", msg); fflush(stdout); exit(0); }
/* C03 monitor, native side: the replay build links with -Wl,--wrap=malloc,... */
void *__real_malloc(size_t); void *__real_calloc(size_t, size_t); void *__real_realloc(void *, size_t); void __real_free(void *);
static void rt_hit(const char *what) { if(verif_rt_section) { verif_rt_section = 0; v_assert_fail(what); } }
void *__wrap_malloc(size_t n) { rt_hit("C03 heap allocation (malloc) inside the realtime section"); return __real_malloc(n); }
void *__wrap_calloc(size_t a, size_t b) { rt_hit("C03 heap allocation (calloc) inside the realtime section"); return __real_calloc(a, b); }
void *__wrap_realloc(void *p, size_t n) { rt_hit("C03 heap allocation (realloc) inside the realtime section"); return __real_realloc(p, n); }
void __wrap_free(void *p) { rt_hit("C03 heap deallocation (free) inside the realtime section"); __real_free(p); }
#ifndef ND_NO_MAIN
void harness(void);
int main(int argc, char **argv) { harness(); printf("REPLAY-END ok\n"); return 0; }
#endif
