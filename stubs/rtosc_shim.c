/* C shims around by-value struct returns of the C API, so that harness code
 * lowered through LLVM IR never crosses the front-end boundary with an
 * aggregate in registers (the x86-64 ABI splits rtosc_arg_t into two words). */
#include <rtosc/rtosc.h>
int32_t v_arg_i(const char *msg, unsigned idx) { return rtosc_argument(msg, idx).i; }
float v_arg_f(const char *msg, unsigned idx) { return rtosc_argument(msg, idx).f; }
int64_t v_arg_h(const char *msg, unsigned idx) { return rtosc_argument(msg, idx).h; }
const char *v_arg_s(const char *msg, unsigned idx) { return rtosc_argument(msg, idx).s; }
int v_arg_T(const char *msg, unsigned idx) { return rtosc_argument(msg, idx).T; }
/* out-parameter forms used by tools/ll2c.py for by-value aggregate returns (ABI_OUT) */
#include <string.h>
void ll_rtosc_argument(const char *msg, unsigned idx, void *out) { rtosc_arg_t a = rtosc_argument(msg, idx); memcpy(out, &a, sizeof a); }
void ll_rtosc_itr_next(rtosc_arg_itr_t *itr, void *out) { rtosc_arg_val_t a = rtosc_itr_next(itr); memcpy(out, &a, sizeof a); }
