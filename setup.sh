#!/bin/sh
# offline setup: nothing to build ahead of time -- every check regenerates its
# encoding from /repo's working tree.  Verify the tools are present.
set -e
for t in cbmc goto-cc clang++-14 gcc g++ python3; do command -v $t >/dev/null || { echo "missing tool: $t"; exit 1; }; done
cbmc --version
mkdir -p /verif/evidence /verif/.work
exit 0
