#!/usr/bin/env python3
"""regenerate /verif/MANIFEST.json from the table below"""
import json, os
V = os.path.dirname(os.path.dirname(os.path.abspath(__file__)))
BMC = "bounded model checking with cbmc 6.11 (SAT) of the real translation units: concrete structure, symbolic values, unwinding assertions, reachability witness per harness, counterexamples replayed natively (ASan) before being reported"
CLAIMS = {
 "C07": dict(units="src/rtosc.c (C, given to cbmc unmodified apart from rewrite R1)",
             text="For every buffer length n in the stated bounds ALL byte contents are covered by one SAT query each: no out-of-bounds read (cbmc pointer/bounds checks on an exact n-byte object), termination (unwinding assertions), result 0 or <= n, and for accepted buffers every accessor equals an independent reference decoder written in the harness. Bounded: all bytes symbolic for n<=8 (12 thorough); structured (fixed '/a' path and concrete tag string, symbolic payload) up to n=24 (44).",
             note="x86-64 LP64, -DNDEBUG; unknown tags carry no payload; cbmc's isprint model; union {0} zero-fills (gcc/clang); buffers longer than the bounds are outside the claim",
             ref="4/C07"),
}
NA = {
 "C12": "end-to-end save/load pipeline over libc formatting (snprintf/sscanf in full generality) and data-shaped heap containers (std::map/std::set/std::vector<std::string>); no bounded symbolic encoding of that pipeline is within reach of cbmc here; its building blocks are decided under C01/C09/C10/C14/C16/C18",
 "C13": "dependency discovery (scan_deps) and the topological sort are local to dispatch_printed_messages and std::map/std::string-bound; they cannot be driven without the whole load pipeline of C12",
}
ALL = ["C%02d" % i for i in range(1, 21)]
m = {"version": 1,
     "setup_cmd": "./setup.sh",
     "hooks": {"guard": "RTOSC_VERIF", "enable": "checks pass -DRTOSC_VERIF to cbmc/clang/gcc when they compile /repo sources; no hook is currently needed (no guarded source change in /repo)",
               "baseline_off_cmd": "cmake -S /repo -B /repo/_build -G Ninja -DCMAKE_BUILD_TYPE=RelWithDebInfo >/dev/null && cmake --build /repo/_build -j8 >/dev/null && ctest --test-dir /repo/_build -j8 --timeout 900",
               "source_commits": [], "add_only": True},
     "engines": [{"name": "cbmc", "path": "/verif/tools/vlib.py", "serves_properties": sorted(CLAIMS), "kind_free_text": "cbmc 6.11 bounded model checker (SAT back end) on the real C units; C++ units via clang-14 LLVM IR -> C translator tools/ll2c.py"}],
     "checks": [], "not_applicable": [],
     "notes": "Every result is bounded: 'holds for all inputs within the bounds listed in evidence/<id>.json; nothing is claimed outside'. Exit codes: 0 held, 1 VIOLATION (replayed natively), 2 check broken/inconclusive (timeout, vacuous harness, non-reproducing counterexample)."}
for pid in ALL:
    if pid in CLAIMS:
        c = CLAIMS[pid]
        m["checks"].append({
            "property_id": pid,
            "quick_cmd": "./check %s --tier quick" % pid,
            "thorough_cmd": "./check %s --tier thorough" % pid,
            "evidence_file": "/verif/evidence/%s.json" % pid,
            "replay_cmd_template": "./check %s --replay {path}" % pid,
            "engine": "cbmc",
            "level_claimed": {"category": "model_checking", "text": c["text"], "design_ref": "DESIGN.md section " + c["ref"]},
            "level_note": c["note"] + "; units verified: " + c["units"],
            "technique": BMC})
    else:
        m["not_applicable"].append({"property_id": pid, "reason": NA.get(pid, "check not built yet in this session (work in progress; see DESIGN.md section 4 for the planned encoding)")})
json.dump(m, open(os.path.join(V, "MANIFEST.json"), "w"), indent=1)
print("claimed:", sorted(CLAIMS))
