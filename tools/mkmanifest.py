#!/usr/bin/env python3
"""regenerate /verif/MANIFEST.json from the table below"""
import json, os
V = os.path.dirname(os.path.dirname(os.path.abspath(__file__)))
BMC = "bounded model checking with cbmc 6.11 (SAT) of the real translation units: concrete structure, symbolic values, unwinding assertions, reachability witness per harness, counterexamples replayed natively (ASan) before being reported"
IR = "C++ units are lowered with clang-14 -O1 to LLVM IR and translated to C by tools/ll2c.py (regenerated from /repo on every run), then checked by cbmc together with the real C units"
CLAIMS = {
 "C01": dict(units="src/rtosc.c, src/cpp/arg-val.c, arg-val-itr.c, arg-val-math.c, arg-ext.c (C, cbmc directly)",
             text="Per concrete type-tag string (exhaustive to length 1/2, representatives and random beyond) one SAT query per constructor/accessor family covers ALL values: every numeric bit pattern, every address byte string of length 1..5 (each length mod 4), strings and blobs of 0..5 bytes with NULL/non-NULL data, destination pre-filled with arbitrary stale bytes. The oracle is an OSC 1.0 reference encoder written in the harness; decoding is checked against the original values on the reference bytes.",
             note="tag strings enumerated, not symbolic; varargs floats not NaN; arg-value-list constructor for flat lists; decode side uses concrete string/blob lengths (contents symbolic) and, for >1 tag, a concrete address text",
             ref="4/C01"),
 "C02": dict(units="src/rtosc.c, src/cpp/arg-val*.c",
             text="Capacity is a symbolic variable 0..needed+8 inside each query (message shape concrete, values symbolic): return value, zero-fill on failure, exact bytes on success, and no byte at or beyond buffer+len modified (shadow copy + cbmc bounds checks on an object 8 bytes larger). rtosc_bundle with 0..2 (3) elements likewise.",
             note="C++ call sites (ThreadLink::write, RtData::reply) are exercised only as far as the C06/C14 harnesses reach them", ref="4/C02"),
 "C03": dict(units="the units of the host harnesses: src/rtosc.c, src/dispatch.c, src/cpp/arg-val*.c (direct), src/cpp/thread-link.cpp, port-sugar.h callbacks + ports.cpp metadata code (via IR)",
             text="Reachability of an allocator or lock is an assertion like any other: the stubs for malloc/calloc/realloc/free/pthread_mutex_lock and operator new/delete (incl. new[]) assert that the realtime-section flag is clear; the harnesses of C01 (build/measure/read, incl. 17/18-value varargs messages), C05 (matching), C06 (ThreadLink write/read/hasNext after construction), C07, C08 and C14 (parameter-port callbacks with recording reply/broadcast) raise the flag around every library call. The solver covers every path of the encoded functions for every input within the host harness bounds, including non-matching, oversized and rejected messages.",
             note="dispatch through port TREES (Ports::dispatch, default handlers, location tracking, hashed tables) is NOT covered: port tables could not be constructed under cbmc; RtData's default 8 KiB reply/broadcast forwarding is not covered; libc internals are stubs", ref="4/C03"),
 "C04": dict(units="src/cpp/ports.cpp (Ports::dispatch incl. hashed, linear, no-location and default-handler branches; Port_Matcher::hard_match) via IR; src/dispatch.c, src/rtosc.c",
             text="Four generated two-level tables (perfect-hash with sub-tree, enumerated with #N sub-tree, hashed with mixed type specs, linear with duplicate names). For every full path of a table and every single-position edit of it (one byte replaced by ANY byte 1..126, one byte inserted, one character removed) the set of callbacks invoked by the real Ports::dispatch equals the set computed by a reference matcher written from the documented pattern language, each exactly once; the runtime object handed down, the port pointer, the full address in the location buffer, its restoration, and the match count (default handler included) are checked; the same expected set is checked with and without a location buffer, i.e. for both lookup strategies.",
             note="tables are CONSTRUCTED DIRECTLY (static Port arrays, vector internals of constructor-less Ports storage pointed at them, perfect-hash vectors taken from a native run of the real refreshMagic on the same names); the Ports constructor and the hash search are not symbolically executed; where the edited byte feeds the hash (hashed tables with a location buffer) or sits next to a numeric index it is enumerated over the table alphabet plus foreign characters instead of being symbolic; 7-bit addresses", ref="3/C04"),
 "C05": dict(units="src/dispatch.c (+ rtosc_argument_string of src/rtosc.c)",
             text="Per concrete pattern generated from the documented grammar (literal, #N, {a,b}, multi-component, trailing '/', ':types' incl. empty alternative) one SAT query covers EVERY address byte string up to the per-pattern bound, every type string of 0..3 bytes and arbitrary following bytes, against a reference matcher written from doc/Guide.adoc; plus a unit contract check of rtosc_match_options.",
             note="atoi is an environment model (stubs/atoi_model.c); alternatives prefix-free; patterns with two {..} groups only in the thorough tier; '*' patterns outside", ref="4/C05"),
 "C06": dict(units="src/cpp/thread-link.cpp (via IR), src/rtosc.c",
             text="Sequential histories by ONE-STEP INDUCTION: from every valid ring state (symbolic read index, ghost queue of 0..3 framed messages of 8/12/16 bytes, lookahead position, stale bytes elsewhere) one operation of the real code (writeArray / raw_write of 8,12,16,24 bytes, read, read_lookahead, hasNext*) is checked against the FIFO contract. Interleavings of the two threads are NOT explored.",
             note="schedules quantifier not covered (cbmc threads reject the translated code; step-function sequentialisation not built) -- the claim is the sequential FIFO contract incl. drop-whole, lookahead and resynchronisation", ref="4/C06"),
 "C07": dict(units="src/rtosc.c",
             text="For every buffer length n in the stated bounds ALL byte contents are covered by one SAT query each: no out-of-bounds read (cbmc pointer/bounds checks on an exact n-byte object), termination (unwinding assertions), result 0 or <= n, and for accepted buffers every accessor equals an independent reference decoder written in the harness. All bytes symbolic for n<=8 (12 thorough); structured (fixed '/a' path and concrete tag string, symbolic payload) up to n=24 (44).",
             note="unknown tags carry no payload; cbmc's isprint model; union {0} zero-fills (gcc/clang); buffers longer than the bounds are outside the claim", ref="4/C07"),
 "C08": dict(units="src/rtosc.c",
             text="Per concrete bundle shape (0..3 (4) elements; int/string messages, empty, singly and doubly nested bundles) one query covers all 64-bit time tags and payloads, with the destination pre-filled with stale bytes and exact or spare capacity: recognised as bundle, element count, each element byte-identical with exact size, time tag, total length == length function; a message is never a bundle.",
             note="append_bundle of subtree-serialize.cpp not encoded", ref="4/C08"),
 "C14": dict(units="include/rtosc/port-sugar.h callbacks (real macros, instantiated in the harness TU) + src/cpp/ports.cpp metadata code via IR; src/rtosc.c, src/dispatch.c",
             text="Per port kind (rParamI [-5,5], rParam char [0,127], rParamF [-3.5,20.25], rToggle, rOption with integer argument, rString(4), rArrayI[4] [0,9], rArrayF[3] [0,1], rArrayT[3]) and per query/set, one SAT query covers every incoming value of the storage type and every stored state: clamp, only the addressed array element touched, reply on query without state change, broadcast of the new value at the port address, exactly one /undo_change with address, true old and new value iff the value changed, nothing else modified. The callback is invoked directly with d.loc/d.port/d.obj set as dispatch sets them; a recording RtData encodes variadic replies with the real rtosc_vmessage.",
             note="option symbols and unbounded rParamI are in the harness but excluded (unmodelled libc path / cbmc error); array element index concrete per query (first and last); atoi/atof/strtol/strtod are environment models", ref="4/C14"),
 "C20": dict(units="src/cpp/midimapper.cpp realtime half (MidiMapperStorage::handleCC/cloneValues, MidiBijection, MidiMapperRT::handleCC, PendingQueue) via IR; src/rtosc.c",
             text="PARTIAL: the realtime half only, one step from an arbitrary well-formed snapshot (3 mapping tuples with symbolic ids and coarse flags, 2 parameter slots with symbolic 14-bit values; slot assignment, presence of a snapshot and number of pending ids enumerated): an assigned controller drives exactly its parameter's callback once with the composed 14-bit value in [0,16383] and leaves other values alone; an unassigned one produces no parameter message and is offered to the non-realtime side at most once while a learn request waits; cloneValues carries each controller's 7 bits into the next generation; the bijection output is within [min,max] and monotone.",
             note="the map/unMap/relearn HISTORIES of the statement run through MidiMappernRT (std::map, std::deque, heap lambdas) and the message exchange between the halves: NOT covered; state constructed directly with -fno-access-control", ref="3/C20"),
 "C16": dict(units="src/cpp/arg-val-cmp.c, arg-val-itr.c, arg-val-math.c, arg-val.c, arg-ext.c (one TU lowered via IR), src/rtosc.c",
             text="Per concrete list shape (types, array lengths, run lengths) one query covers all values: reflexive, antisymmetric, transitive, cmp==0 iff eq, semantic order per type; compression invariance of eq/cmp/iteration/message bytes for constant and integer-delta runs, incl. two compressed lists against each other and lists of different length.",
             note="no NaN; non-NULL strings; default cmp options; runs of strings excluded; infinite ranges excluded", ref="4/C16"),
 "C17": dict(units="src/cpp/ports.cpp (Port::MetaIterator/MetaContainer) via IR",
             text="Per concrete block layout (1..3 (4) entries, key length 1..2, value absent or 0..2 bytes) one query covers every non-NUL byte content incl. ':' and '=' and a symbolic lookup key: iteration order and pointers, operator[] first-entry semantics, find, length.",
             note="keys do not start with ':'", ref="4/C17"),
 "C18": dict(units="src/cpp/ports.cpp (Ports::collapsePath) via IR",
             text="Per concrete component structure ('..' / 1- / 2-char names; exhaustive to 3 components over three kinds and to 6 (7) components over {'..', 1-char name}) one query covers every name byte: result pointer inside the buffer, collapsed string equals the stack-based reference, nothing before the buffer written.",
             note="lookup by address and child search (apropos, operator[], path_search) over port tables are NOT claimed -- only the collapsePath clause", ref="4/C18"),
 "C19": dict(units="src/cpp/automations.cpp via IR, src/rtosc.c",
             text="Learn queue by one-step induction from every valid pre-state of 2..3 (5) slots: createBinding(c, path, learn / no learn) over a directly constructed port table, clearSlot(c) and handleMidi(symbolic plain controller) preserve the queue invariant, keep request order, bind exactly the first waiting slot, a bound controller drives exactly its slots. Output: for enumerated declared ranges/types, all pairs of slot values in [-2,3]: address, type, value inside [min,max], monotone, 0->min and 1->max at default gain/offset.",
             note="setSlotSubPath not encoded; createBinding only for a float port with bounds and a port without bounds (binding the toggle port does not finish); log scale outside; NRPN outside; roundf/atof models", ref="4/C19"),
}
NA = {
 "C09": "walk_ports/port_is_enabled need port trees plus snprintf formatting and Capture/std::vector scratch buffers of get_value_from_runtime; not encodable within reach",
 "C10": "pretty-format.c is a client of snprintf/sscanf/strftime in full generality (%a/%f/%n/%[ directives, float formatting); no validated bounded model of those directives was built, so neither the round trip nor the checker/scanner agreement can be decided by symbolic execution here",
 "C11": "same obstacle as C10: the scanner is driven by sscanf directive semantics that cbmc does not model and that were not modelled by hand in the available time",
 "C15": "UndoHistory keeps its events in a std::deque and allocates every event with new char[len] where len is computed at run time; with the pool allocator stub a symbolic allocation size makes every later address symbolic and the libstdc++ deque code does not finish; no check was built",
 "C12": "end-to-end save/load pipeline over libc formatting (snprintf/sscanf in full generality) and data-shaped heap containers (std::map/std::set/std::vector<std::string>); no bounded symbolic encoding of that pipeline is within reach of cbmc here; its building blocks are decided under C01/C09/C10/C14/C16/C18",
 "C13": "dependency discovery (scan_deps) and the topological sort are local to dispatch_printed_messages and std::map/std::string-bound; they cannot be driven without the whole load pipeline of C12",
}
ALL = ["C%02d" % i for i in range(1, 21)]
# thorough tiers that were run to completion on the unchanged (repaired) tree in this session; the others have a
# thorough tier in props/<ID>.py that was not validated for lack of time and is therefore not registered
THOROUGH_OK = {"C02", "C03", "C06", "C07", "C08", "C14", "C16", "C18", "C19", "C20"}
m = {"version": 1,
     "setup_cmd": "./setup.sh",
     "hooks": {"guard": "RTOSC_VERIF", "enable": "checks pass -DRTOSC_VERIF to cbmc/clang/gcc when they compile /repo sources; no hook is currently needed (no guarded source change in /repo)",
               "baseline_off_cmd": "cmake -S /repo -B /repo/_build -G Ninja -DCMAKE_BUILD_TYPE=RelWithDebInfo >/dev/null && cmake --build /repo/_build -j8 >/dev/null && ctest --test-dir /repo/_build -j8 --timeout 900",
               "source_commits": [], "add_only": True},
     "engines": [{"name": "cbmc", "path": "/verif/tools/vlib.py", "serves_properties": sorted(CLAIMS), "kind_free_text": "cbmc 6.11 bounded model checker (SAT back end) on the real C units; C++ units via clang-14 LLVM IR -> C translator tools/ll2c.py"}],
     "checks": [], "not_applicable": [],
     "notes": "Every result is bounded: 'holds for all inputs within the bounds listed in evidence/<id>.json; nothing is claimed outside'. Exit codes: 0 held, 1 VIOLATION (replayed natively), 2 check broken/inconclusive (timeout, vacuous harness, non-reproducing counterexample)."}
for pid in ALL:
    if pid in CLAIMS:
        c = CLAIMS[pid]
        m["checks"].append({
            "property_id": pid,
            "quick_cmd": "./check %s --tier quick" % pid,
            **({"thorough_cmd": "./check %s --tier thorough" % pid} if pid in THOROUGH_OK else {}),
            "evidence_file": "/verif/evidence/%s.json" % pid,
            "replay_cmd_template": "./check %s --replay {path}" % pid,
            "engine": "cbmc",
            "level_claimed": {"category": "model_checking", "text": c["text"], "design_ref": "DESIGN.md section " + c["ref"]},
            "level_note": c["note"] + "; units verified: " + c["units"],
            "technique": BMC})
    else:
        m["not_applicable"].append({"property_id": pid, "reason": NA.get(pid, "no check built in the available time; the planned encoding is in DESIGN.md section 4")})
json.dump(m, open(os.path.join(V, "MANIFEST.json"), "w"), indent=1)
print("claimed:", sorted(CLAIMS))
