"""replay a recorded counterexample natively against /repo's current tree"""
import json, os, sys, tempfile, shutil
import vlib

def main(pid, path):
    rec = json.load(open(path))
    ctx = vlib.Ctx(pid + "-replay", "quick", 0)
    q = vlib.Query("replay", rec["sources"], entry=rec.get("entry", "harness"), defines=rec.get("defines", []),
                   native_sources=rec["sources"], native_cxx=rec.get("native_cxx", False), native_flags=rec.get("native_flags", []),
                   native_lib_exclude=rec.get("native_lib_exclude"), native_c_sources=rec.get("native_c_sources"))
    q.dir = ctx.wpath("q")
    os.makedirs(q.dir, exist_ok=True)
    missing = [f for f in rec["sources"] if not os.path.exists(f)]
    if missing:
        # generated harness sources live in the work directory of the run that found the violation;
        # regenerate them by rebuilding the property's queries (no solver run)
        import importlib
        mod = importlib.import_module(pid)
        ctx2 = vlib.Ctx(pid, rec.get("tier", "quick"), int(os.environ.get("VERIF_SEED", "0") or 0))
        mod.build(ctx2)
        missing = [f for f in rec["sources"] if not os.path.exists(f)]
        if missing:
            print("cannot find harness sources: %s" % missing); return 2
    exe, err = ctx.native_build(q)
    if exe is None:
        print("native build failed:\n" + err); return 2
    nd = os.path.join(q.dir, "r.nd")
    open(nd, "w").write("\n".join(str(v) for v in rec["nondet_log"]) + "\n")
    env = dict(os.environ, ND_REPLAY=nd, ASAN_OPTIONS="detect_leaks=0")
    rc, out, wall, rss, to = vlib.sh([exe], timeout=10, env=env)
    print(out[-3000:])
    if to:
        print("REPLAY: timeout (non-termination) -- violation reproduced"); return 1
    if rc != 0 and "ASSUME-FAIL" not in out:
        print("REPLAY: failure reproduced (rc=%s)" % rc); return 1
    print("REPLAY: not reproduced on the current tree"); return 0
