#!/bin/bash
# usage: tools/confirm_mutant.sh <name> <patch.diff> <demo.c|demo.cpp>
# confirms in a scratch worktree of /repo HEAD: builds, demo passes on clean tree, with the patch: builds, ctest 31/31, demo fails
NAME=$1; DIFF=$2; DEMO=$3
W=/tmp/cm/$NAME; rm -rf $W; git -C /repo worktree prune; mkdir -p /tmp/cm
git -C /repo worktree add -q --detach $W HEAD || exit 2
cd $W
build() { cmake -G Ninja -B _build -DCMAKE_BUILD_TYPE=RelWithDebInfo >/dev/null 2>&1 && cmake --build _build -j6 >/dev/null 2>&1; }
demo() { case $DEMO in *.cpp) CC="g++ -std=c++17";; *) CC="gcc -std=gnu99";; esac
  $CC -O1 -g -I include -I src/cpp $DEMO _build/librtosc-cpp.a _build/librtosc.a -o /tmp/cm/$NAME.demo -lm -lpthread $(grep -q -- '--wrap=malloc' $(dirname $DEMO)/$(basename $DEMO | sed 's/_demo.*/_meta.txt/') 2>/dev/null && echo '-Wl,--wrap=malloc,--wrap=calloc,--wrap=realloc,--wrap=free') 2>/tmp/cm/$NAME.cc.log || { echo "demo build failed"; return 99; }
  timeout 20 /tmp/cm/$NAME.demo >/tmp/cm/$NAME.out 2>&1; return $?; }
build || { echo "RESULT $NAME clean-build-failed"; exit 2; }
demo; RC0=$?
git apply $DIFF || { echo "RESULT $NAME patch-does-not-apply"; git -C /repo worktree remove --force $W; exit 2; }
build || { echo "RESULT $NAME mutant-build-failed"; git -C /repo worktree remove --force $W; exit 2; }
T=$(ctest --test-dir _build -j6 --timeout 300 2>&1 | grep -E "tests passed|tests failed" | head -1)
demo; RC1=$?
echo "RESULT $NAME clean_demo_rc=$RC0 mutant_demo_rc=$RC1 ctest='$T'"
cd /; git -C /repo worktree remove --force $W
