#!/usr/bin/env python3
"""vlib -- runner for bounded symbolic checks of /repo with cbmc.

One *query* = one cbmc run over (harness + real sources) with concrete
structure and symbolic values.  Every harness ends in at least one
`__CPROVER_assert(0, "WITNESS ...")`, which must come back FAILURE
(reachability witness); every other property must come back SUCCESS.
A failing property is re-run with --trace, the nondet log is extracted and
replayed against a native build of the same harness + real sources; only a
reproduced failure prints a VIOLATION line.
"""
import concurrent.futures as cf
import fnmatch
import hashlib
import json
import os
import re
import resource
import shutil
import subprocess
import sys
import threading
import time

VERIF = os.path.dirname(os.path.dirname(os.path.abspath(__file__)))
REPO = os.environ.get("VERIF_REPO", "/repo")
WORK = os.environ.get("VERIF_WORK", os.path.join(VERIF, ".work"))
EVDIR = os.environ.get("VERIF_EVIDENCE_DIR", os.path.join(VERIF, "evidence"))
RPDIR = os.environ.get("VERIF_REPLAY_DIR", os.path.join(VERIF, "replays"))
STUBS = os.path.join(VERIF, "stubs")
HARN = os.path.join(VERIF, "harness")
NCPU = int(os.environ.get("VERIF_JOBS", "16"))

C_UNITS = {
    "rtosc": "src/rtosc.c",
    "dispatch": "src/dispatch.c",
    "time": "src/rtosc-time.c",
    "arg-val": "src/cpp/arg-val.c",
    "arg-val-cmp": "src/cpp/arg-val-cmp.c",
    "arg-val-itr": "src/cpp/arg-val-itr.c",
    "arg-val-math": "src/cpp/arg-val-math.c",
    "arg-ext": "src/cpp/arg-ext.c",
    "util": "src/cpp/util.c",
    "pretty-format": "src/cpp/pretty-format.c",
}

BASE_DEFS = ["-DNDEBUG", "-D__NO_CTYPE", "-DRTOSC_VERIF"]
BASE_INC = ["-I" + os.path.join(REPO, "include"), "-I" + os.path.join(REPO, "src"),
            "-I" + os.path.join(REPO, "src/cpp"), "-I" + STUBS, "-I" + os.path.join(HARN, "common")]
CBMC_FLAGS = ["--unwinding-assertions", "--drop-unused-functions",
              "--no-signed-overflow-check", "--no-undefined-shift-check",
              "--no-malloc-may-fail", "--no-pointer-primitive-check",
              "--verbosity", "4"]

RES_RE = re.compile(r"^\[([^\]]+)\] (.*): (SUCCESS|FAILURE|UNKNOWN|ERROR)\s*$")


def unit(name):
    return os.path.join(REPO, C_UNITS[name])


# Source-level modelling rewrites applied to a *copy* of the unit taken from
# /repo's working tree on every run (documented in DESIGN.md 2.2):
#  R1  `rtosc_arg_t x = {0};` zero-fills the whole union.  ISO C only
#      initialises the first member (4 bytes) and cbmc leaves the rest
#      nondeterministic; gcc and clang zero the whole object.  We model the
#      compilers the library is built with.
REWRITES = [
    (re.compile(r"\brtosc_arg_t\s+(\w+)\s*=\s*\{\s*0\s*\}\s*;"),
     r"rtosc_arg_t \1; memset(&\1, 0, sizeof(\1));", "R1 union {0} zero-fills whole object"),
    (re.compile(r"\brtosc_arg_val_t\s+(\w+)\s*=\s*\{\s*0\s*,\s*\{\s*0\s*\}\s*\}\s*;"),
     r"rtosc_arg_val_t \1; memset(&\1, 0, sizeof(\1));", "R1 arg_val {0,{0}} zero-fills whole object"),
]


def _limits(mem_gb):
    def f():
        b = int(mem_gb * (1 << 30))
        resource.setrlimit(resource.RLIMIT_AS, (b, b))
        os.setsid()
    return f


def sh(cmd, timeout=None, mem_gb=None, cwd=None, env=None):
    """run, return (rc, stdout+stderr, wall, maxrss_kb, timed_out)"""
    t0 = time.time()
    p = subprocess.Popen(cmd, stdout=subprocess.PIPE, stderr=subprocess.STDOUT, cwd=cwd, env=env,
                         preexec_fn=_limits(mem_gb) if mem_gb else os.setsid)
    to = False
    try:
        out, _ = p.communicate(timeout=timeout)
    except subprocess.TimeoutExpired:
        to = True
        try:
            os.killpg(p.pid, 9)
        except Exception:
            pass
        out, _ = p.communicate()
    ru = resource.getrusage(resource.RUSAGE_CHILDREN)
    return p.returncode, out.decode("utf-8", "replace"), time.time() - t0, ru.ru_maxrss, to


class Query:
    def __init__(self, name, sources, entry="harness", defines=(), unwind=8, unwindset=(),
                 flags=(), descr=None, native_sources=None, timeout=None, mem_gb=None,
                 native_cxx=False, native_flags=(), expect_fail=None, objbits=None, backend=None, witness_optional=None, native_lib_exclude=None, native_c_sources=None):
        self.name = name
        self.sources = list(sources)          # given to cbmc (C)
        self.entry = entry
        self.defines = list(defines)
        self.unwind = unwind
        self.unwindset = list(unwindset)
        self.flags = list(flags)
        self.descr = descr or {}
        self.native_sources = native_sources  # for replay; default = sources
        self.timeout = timeout
        self.mem_gb = mem_gb
        self.native_cxx = native_cxx
        self.native_flags = list(native_flags)
        # expect_fail: regex of property descriptions that are expected to FAIL
        # (known findings re-derivation queries)
        self.expect_fail = expect_fail
        self.objbits = objbits
        self.backend = backend
        self.witness_optional = witness_optional
        self.native_lib_exclude = native_lib_exclude
        self.native_c_sources = native_c_sources or []
        # results
        self.status = None
        self.props = {}
        self.wall = 0.0
        self.rss = 0
        self.log = ""
        self.failed = []
        self.witness_ok = False


class Ctx:
    def __init__(self, pid, tier, seed):
        self.pid = pid
        self.tier = tier
        self.seed = seed
        self.t0 = time.time()
        self.work = os.path.join(WORK, pid)
        shutil.rmtree(self.work, ignore_errors=True)
        os.makedirs(self.work)
        self.queries = []
        self.violations = []      # (query, propname, descr, replay path)
        self.known_hits = []
        self.broken = []          # reasons the check itself is broken / inconclusive
        self.notes = []
        self.assumptions = []
        self.functions = []
        self.units = []
        self.bounds = {}
        self.stubs = []
        self.outside = []
        self.extra = {}
        self.lock = threading.Lock()
        self.qtimeout = int(os.environ.get("VERIF_QTIMEOUT", "600" if tier == "quick" else "2400"))
        self.qmem = float(os.environ.get("VERIF_QMEM", "12"))
        self.known = load_known(pid)
        self.tv_programs = 0
        self.rewrites = []
        self.unreplayed = []
        self.extra_cache = {}

    # ------------------------------------------------------------------
    def add(self, q):
        self.queries.append(q)
        return q

    def wpath(self, *p):
        return os.path.join(self.work, *p)

    def unit(self, name):
        """copy of a repo C unit (current working tree) with the modelling rewrites applied"""
        src = unit(name)
        dst = self.wpath("units", os.path.basename(src))
        if os.path.exists(dst):
            return dst
        text = open(src).read()
        for rx, rep, what in REWRITES:
            text, n = rx.subn(rep, text)
            if n:
                self.rewrites.append("%s: %s (x%d)" % (C_UNITS[name], what, n))
        text = '#line 1 "%s"\n' % src + text
        os.makedirs(os.path.dirname(dst), exist_ok=True)
        with open(dst, "w") as f:
            f.write(text)
        return dst

    def write(self, rel, text):
        p = self.wpath(rel)
        os.makedirs(os.path.dirname(p), exist_ok=True)
        with open(p, "w") as f:
            f.write(text)
        return p

    # ------------------------------------------------------------------
    def native_lib(self, exclude=()):
        """objects of all library sources of /repo's working tree except `exclude` (basenames), built
        once per check run with ASan, for linking native replays of C++ harness TUs"""
        key = "nlib_" + hashlib.sha1(",".join(sorted(exclude)).encode()).hexdigest()[:8]
        with self.lock:
            if key in self.extra_cache:
                return self.extra_cache[key]
            d = self.wpath(key)
            os.makedirs(d, exist_ok=True)
            objs = []
            srcs = [os.path.join(REPO, "src", f) for f in ("rtosc.c", "dispatch.c", "rtosc-time.c")]
            cppd = os.path.join(REPO, "src", "cpp")
            vc = os.path.join(d, "version.c")
            try:
                txt = open(os.path.join(cppd, "version.c.in")).read()
                for k_, v_ in (("${VERSION_MAJOR}", "0"), ("${VERSION_MINOR}", "3"), ("${VERSION_PATCH}", "1")):
                    txt = txt.replace(k_, v_)
                open(vc, "w").write(txt)
                srcs.append(vc)
            except Exception:
                pass
            for f in sorted(os.listdir(cppd)):
                if f.endswith((".c", ".cpp")):
                    srcs.append(os.path.join(cppd, f))
            jobs = []
            for sfile in srcs:
                b = os.path.basename(sfile)
                if b in exclude:
                    continue
                o = os.path.join(d, b + ".o")
                cc = ["g++", "-std=c++17"] if b.endswith(".cpp") else ["gcc", "-std=gnu99"]
                jobs.append((cc + ["-g", "-O0", "-w", "-c", "-fsanitize=address", "-fno-omit-frame-pointer", "-DNDEBUG", "-DRTOSC_VERIF",
                                   "-I" + os.path.join(REPO, "include"), "-I" + os.path.join(REPO, "src"), "-I" + cppd, sfile, "-o", o], o))
            with cf.ThreadPoolExecutor(max_workers=NCPU) as ex:
                res = list(ex.map(lambda j: (sh(j[0], timeout=600), j[1]), jobs))
            for (rc, out, *_), o in res:
                if rc == 0:
                    objs.append(o)
                else:
                    self.notes.append("native lib: could not build %s: %s" % (o, out[-300:]))
            self.extra_cache[key] = objs
            return objs

    def ir_translate(self, name, tu, cxx=False, defines=(), inline=2000, extra_flags=(), roots=("harness",), resumable=()):
        """front end B: clang -O1 -> LLVM IR -> tools/ll2c.py -> C for cbmc.  Returns the path of the
        generated C (regenerated from /repo's working tree on every run)."""
        d = self.wpath("ir")
        os.makedirs(d, exist_ok=True)
        ll = os.path.join(d, name + ".ll")
        out = os.path.join(d, name + "_ll.c")
        cc = ["clang++-14", "-std=c++17", "-fno-exceptions", "-fno-rtti", "-D_GLIBCXX_EXTERN_TEMPLATE=0"] if cxx else ["clang-14"]
        cmd = cc + ["-O1", "-mllvm", "-inline-threshold=%d" % inline, "-fno-vectorize", "-fno-slp-vectorize", "-fno-unroll-loops",
                    "-mllvm", "-simplifycfg-sink-common=false", "-mllvm", "-simplifycfg-hoist-common=false", "-DVERIF_IR", "-w"] + BASE_DEFS + BASE_INC + list(defines) + list(extra_flags) + ["-S", "-emit-llvm", tu, "-o", ll]
        rc, o, *_ = sh(cmd, timeout=600)
        if rc != 0:
            raise RuntimeError("clang failed for %s:\n%s" % (name, o[-3000:]))
        if roots:
            # keep only what is reachable from the harness entry points (and the global constructors)
            ll2 = os.path.join(d, name + ".s.ll")
            rc, o, *_ = sh(["opt-14", "-S", "-passes=internalize,globaldce", "-internalize-public-api-list=" + ",".join(roots), ll, "-o", ll2], timeout=600)
            if rc != 0:
                raise RuntimeError("opt failed for %s:\n%s" % (name, o[-3000:]))
            ll = ll2
        rc, o, *_ = sh([sys.executable, os.path.join(VERIF, "tools", "ll2c.py")] + (["--resumable", ",".join(resumable)] if resumable else []) + [ll, out], timeout=600)
        if rc != 0:
            raise RuntimeError("ll2c failed for %s:\n%s" % (name, o[-3000:]))
        self.tv_programs += 1
        return out

    def cbmc_cmd(self, q, extra=()):
        cmd = ["cbmc"] + q.sources + BASE_DEFS + BASE_INC + q.defines
        cmd += ["--function", q.entry, "--unwind", str(q.unwind)]
        if q.unwindset:
            cmd += ["--unwindset", ",".join(q.unwindset)]
        if q.objbits:
            cmd += ["--object-bits", str(q.objbits)]
        be = q.backend or os.environ.get("VERIF_BACKEND", "")
        if be == "kissat":
            cmd += ["--external-sat-solver", "kissat"]
        elif be == "cadical":
            cmd += ["--sat-solver", "cadical"]
        fl = [f for f in CBMC_FLAGS if not any(f == "--no-" + x[2:] for x in q.flags)]
        cmd += fl + q.flags + list(extra)
        return cmd

    def static_cmds(self, q):
        """static loop unwinding with goto-instrument (fallback when cbmc's dynamic
        unwind counters give a spurious unwinding failure on re-entered loops)"""
        d = q.dir
        gb0, gb1, gb2 = [os.path.join(d, "s%d.gb" % i) for i in range(3)]
        c1 = ["goto-cc"] + q.sources + ["-D__CPROVER__"] + BASE_DEFS + BASE_INC + q.defines + ["--function", q.entry, "-o", gb0]
        c2 = ["goto-instrument", "--drop-unused-functions", gb0, gb1]
        c3 = ["goto-instrument", "--unwind", str(q.unwind), "--unwinding-assertions", gb1, gb2]
        fl = [f for f in CBMC_FLAGS if f not in ("--unwinding-assertions", "--drop-unused-functions")]
        c4 = ["cbmc", gb2] + fl + [f for f in q.flags]
        if q.objbits:
            c4 += ["--object-bits", str(q.objbits)]
        return [c1, c2, c3], c4

    def run_query(self, q):
        qdir = self.wpath("q", re.sub(r"[^A-Za-z0-9_.-]", "_", q.name))
        os.makedirs(qdir, exist_ok=True)
        q.dir = qdir
        if getattr(q, "prepare", None) is not None and not getattr(q, "prepared", False):
            try:
                q.prepare(q)
                q.prepared = True
            except Exception as e:
                q.status = "error"
                q.log = "prepare failed: %s" % e
                return q
        if getattr(q, "static_unwind", False):
            pre, cmd = self.static_cmds(q)
            for c in pre:
                rc, out, *_ = sh(c, timeout=600)
                if rc != 0:
                    q.status = "error"
                    q.log = " ".join(c) + "\n" + out[-2000:]
                    return q
        else:
            cmd = self.cbmc_cmd(q)
        rc, out, wall, rss, to = sh(cmd, timeout=q.timeout or self.qtimeout, mem_gb=q.mem_gb or self.qmem)
        q.wall, q.rss = wall, rss
        with open(os.path.join(qdir, "cbmc.log"), "w") as f:
            f.write(" ".join(cmd) + "\n" + out)
        if to:
            q.status = "timeout"
            return q
        props = {}
        for line in out.splitlines():
            m = RES_RE.match(line)
            if m:
                props[m.group(1)] = (m.group(2), m.group(3))
        q.props = props
        if "VERIFICATION SUCCESSFUL" not in out and "VERIFICATION FAILED" not in out:
            q.status = "error"
            q.log = out[-3000:]
            return q
        wit = [(k, v) for k, v in props.items() if "WITNESS" in v[0]]
        req = [(k, v) for k, v in wit if not (q.witness_optional and re.search(q.witness_optional, v[0]))]
        q.witness_ok = bool(req) and all(v[1] == "FAILURE" for k, v in req)
        q.witnesses_reached = len([1 for k, v in wit if v[1] == "FAILURE"])
        q.failed = [(k, v[0]) for k, v in props.items() if "WITNESS" not in v[0] and v[1] == "FAILURE"]
        q.unknown = [(k, v[0]) for k, v in props.items() if "WITNESS" not in v[0] and v[1] not in ("SUCCESS", "FAILURE")]
        q.nprops = len(props) - len(wit)
        q.status = "done"
        return q

    # ------------------------------------------------------------------
    def trace_nd(self, q, prop):
        """re-run for one property with a trace; return nondet log list"""
        if getattr(q, "trace_js", None) is None:
            if getattr(q, "static_unwind", False):
                cmd = self.static_cmds(q)[1] + ["--trace", "--json-ui"]
            else:
                cmd = self.cbmc_cmd(q, extra=["--trace", "--json-ui"])
            rc, out, wall, rss, to = sh(cmd, timeout=(q.timeout or self.qtimeout) * 2, mem_gb=q.mem_gb or self.qmem)
            if to:
                return None, "trace run timed out"
            try:
                q.trace_js = json.loads(out)
            except Exception as e:
                return None, "unparsable json trace: %s" % e
        js = q.trace_js
        vals = {}
        ok = False
        for item in js:
            if not isinstance(item, dict) or "result" not in item:
                continue
            for r in item["result"]:
                if r.get("status") == "FAILURE" and "trace" in r and r.get("property") == prop:
                    ok = True
                    for st in r["trace"]:
                        if st.get("stepType") != "assignment":
                            continue
                        lhs = st.get("lhs", "")
                        m = re.match(r"^ND_LOG\[(?:\(.*?\))?(\d+)l?l?\]$", lhs)
                        if m and "value" in st:
                            v = st["value"]
                            b = v.get("binary")
                            if b is not None:
                                vals[int(m.group(1))] = int(b, 2)
                            elif "data" in v:
                                try:
                                    vals[int(m.group(1))] = int(v["data"].rstrip("ul")) & (2**64 - 1)
                                except Exception:
                                    pass
                        elif lhs == "ND_LOG" and "value" in st and "elements" in st["value"]:
                            for i, e in enumerate(st["value"]["elements"]):
                                b = e.get("value", {}).get("binary")
                                if b is not None and i not in vals:
                                    vals[i] = int(b, 2)
        if not ok:
            return None, "no failing trace in re-run"
        n = max(vals) + 1 if vals else 0
        nd = [vals.get(i, 0) for i in range(n)]
        while nd and nd[-1] == 0:
            nd.pop()
        return nd, None

    def native_build(self, q, asan=True):
        srcs = q.native_sources if q.native_sources is not None else q.sources
        exe = os.path.join(q.dir, "replay.exe")
        cc = "g++" if q.native_cxx else "gcc"
        std = ["-std=c++17"] if q.native_cxx else ["-std=gnu99"]
        cmd = [cc, "-g", "-O0", "-w"] + std + ["-DREPLAY"] + [d for d in BASE_DEFS if d != "-D__NO_CTYPE"] + BASE_INC + q.defines
        if asan:
            cmd += ["-fsanitize=address", "-fno-omit-frame-pointer"]
        cmd += q.native_flags
        if getattr(q, "native_lib_exclude", None) is not None:
            srcs = srcs + self.native_lib(tuple(q.native_lib_exclude))
        cmd += srcs + [os.path.join(STUBS, "nd_native.c"), "-o", exe, "-lm", "-Wl,--wrap=malloc,--wrap=calloc,--wrap=realloc,--wrap=free"]
        if q.native_cxx:
            for ci, cs in enumerate(q.native_c_sources):
                co = os.path.join(q.dir, "csrc%d.o" % ci)
                sh(["gcc", "-c", "-g", "-w", "-DNDEBUG"] + BASE_INC + [cs, "-o", co] + (["-fsanitize=address"] if asan else []))
                cmd.insert(-4, co)
            # nd_native.c is C; compile separately
            obj = os.path.join(q.dir, "nd_native.o")
            rc, out, *_ = sh(["gcc", "-c", "-g", "-w", os.path.join(STUBS, "nd_native.c"), "-o", obj] + (["-fsanitize=address"] if asan else []))
            cmd = [c for c in cmd if c != os.path.join(STUBS, "nd_native.c")]
            cmd.insert(-4, obj)
        rc, out, *_ = sh(cmd, timeout=600)
        if rc != 0:
            return None, out[-3000:]
        return exe, None

    def replay(self, q, prop, descr):
        nd, err = self.trace_nd(q, prop)
        if nd is None:
            return None, "trace: " + err
        h = hashlib.sha1((q.name + prop + json.dumps(nd)).encode()).hexdigest()[:12]
        rdir = os.path.join(RPDIR, self.pid)
        os.makedirs(rdir, exist_ok=True)
        rpath = os.path.join(rdir, h + ".json")
        exe, err = self.native_build(q)
        if exe is None:
            return None, "native build failed: " + err
        ndfile = os.path.join(q.dir, h + ".nd")
        with open(ndfile, "w") as f:
            f.write("\n".join(str(v) for v in nd) + "\n")
        env = dict(os.environ, ND_REPLAY=ndfile, ASAN_OPTIONS="detect_leaks=0:abort_on_error=0")
        rc, out, wall, rss, to = sh([exe, q.entry], timeout=10, env=env)
        verdict = None
        if to:
            verdict = "timeout (non-termination)"
        elif rc == 0:
            verdict = None
        elif "ASSUME-FAIL" in out:
            verdict = None
        elif "ASSERT-FAIL" in out:
            nmsg = out.split("ASSERT-FAIL", 1)[1].strip().splitlines()[0][:200]
            verdict = "assertion: " + nmsg
            # an assertion-type counterexample must reproduce as the SAME assertion; a different
            # native failure on the same input is reported under its own cbmc property, not this one
            same = nmsg.strip() in descr or (nmsg.startswith("C03 ") and "C03 " in descr)
            if ".assertion." in prop and not same:
                verdict = None
                out = "native run fails a different assertion (%s)\n" % nmsg + out
        elif "AddressSanitizer" in out:
            m = re.search(r"AddressSanitizer: (\S+)", out)
            verdict = "asan: " + (m.group(1) if m else "?")
        else:
            verdict = "abnormal exit %s" % rc
        rec = {"property": self.pid, "query": q.name, "cbmc_property": prop, "description": descr,
               "nondet_log": nd, "defines": q.defines, "entry": q.entry,
               "sources": q.native_sources if q.native_sources is not None else q.sources,
               "native_cxx": q.native_cxx, "native_flags": q.native_flags, "native_lib_exclude": q.native_lib_exclude,
               "native_c_sources": q.native_c_sources,
               "native_verdict": verdict, "native_output_tail": out[-1500:], "descr": q.descr}
        if verdict is None:
            rec["note"] = "NOT reproduced natively"
            with open(os.path.join(q.dir, h + ".noreplay.json"), "w") as f:
                json.dump(rec, f, indent=1)
            return None, "counterexample did not reproduce natively (rc=%s): %s" % (rc, out[-300:])
        with open(rpath, "w") as f:
            json.dump(rec, f, indent=1)
        return rpath, verdict

    # ------------------------------------------------------------------
    def run_all(self):
        only = os.environ.get("VERIF_ONLY")
        if only:
            self.queries = [q for q in self.queries if re.search(only, q.name)]
        def work(q):
            try:
                self.run_query(q)
                # unwind escalation: if the only failures are unwinding assertions, the
                # bound was too small for this harness (or a loop does not terminate):
                # retry with a doubled bound, twice; what still fails is triaged below.
                esc = 0
                while (q.status == "done" and q.failed and esc < 2 and
                       all("unwinding assertion" in f[1] or ".recursion" in f[0] for f in q.failed)):
                    esc += 1
                    q.unwind *= 2
                    q.unwindset = [re.sub(r":(\d+)$", lambda m: ":%d" % (int(m.group(1)) * 2), u) for u in q.unwindset]
                    q.escalated = esc
                    w0 = q.wall
                    self.run_query(q)
                    q.wall += w0
                if (q.status == "done" and q.failed and esc and
                        all("unwinding assertion" in f[1] for f in q.failed)):
                    # still only unwinding failures: cbmc's dynamic counters are not reset on
                    # some re-entries of a loop; fall back to static unwinding (goto-instrument)
                    q.unwind //= 2 ** esc
                    q.static_unwind = True
                    w0 = q.wall
                    self.run_query(q)
                    q.wall += w0
            except Exception as e:  # noqa
                q.status = "error"
                q.log = repr(e)
            sys.stderr.write("  [%s] %-60s %s %.1fs props=%d failed=%d wit=%s\n" % (
                self.pid, q.name[:60], q.status, q.wall, len(q.props), len(q.failed), q.witness_ok))
            return q
        with cf.ThreadPoolExecutor(max_workers=NCPU) as ex:
            list(ex.map(work, self.queries))
        # triage
        for q in self.queries:
            if q.status == "timeout":
                self.broken.append("query %s: timeout after %.0fs (inconclusive)" % (q.name, q.wall))
                continue
            if q.status != "done":
                self.broken.append("query %s: cbmc error: %s" % (q.name, q.log[-600:]))
                continue
            if not q.witness_ok:
                self.broken.append("query %s: reachability witness not reached (vacuous harness)" % q.name)
            if q.expect_fail:
                hit = [f for f in q.failed if re.search(q.expect_fail, f[1])]
                other = [f for f in q.failed if not re.search(q.expect_fail, f[1])]
                if hit:
                    q.known_rederived = True
                q.failed = other
            if not q.failed:
                if q.unknown:
                    self.broken.append("query %s: %d properties UNKNOWN without any FAILURE" % (q.name, len(q.unknown)))
                continue
            # group failures: replay the first few distinct ones
            done = 0
            q.trace_js = None
            q.failed.sort(key=lambda f: (0 if ".assertion." in f[0] else 1 if "unwind" in f[0] else 2 if "bounds" in f[1] else 3))
            for prop, descr in q.failed:
                kn = self.match_known(q, prop, descr)
                if kn is not None:
                    self.known_hits.append((kn, q.name, prop, descr))
                    continue
                if done >= 2:
                    break
                done += 1
                if len(self.violations) >= int(os.environ.get("VERIF_MAX_REPLAYS", "8")):
                    self.unreplayed.append((q.name, prop, descr))
                    break
                if "unwinding assertion" in descr:
                    rpath, verdict = self.replay(q, prop, descr)
                    if rpath:
                        self.violations.append((q, prop, descr, rpath, verdict))
                    else:
                        self.broken.append("query %s: %s failed but native run terminates -> unwind bound %s too small for this harness (%s)" % (q.name, prop, q.unwind, verdict))
                    continue
                rpath, verdict = self.replay(q, prop, descr)
                if rpath:
                    self.violations.append((q, prop, descr, rpath, verdict))
                else:
                    if is_ub_only(prop, descr) or "did not reproduce" not in str(verdict) and False:
                        self.notes.append("UB-only observation (not reproducible by sanitizer, not a violation): %s %s %s" % (q.name, prop, descr))
                    else:
                        self.broken.append("query %s: %s [%s] -> %s" % (q.name, prop, descr, verdict))

    def match_known(self, q, prop, descr):
        for k in self.known:
            if k["kind"] != "known":
                continue
            if fnmatch.fnmatch(q.name, k.get("query", "*")) and re.search(k["assert"], prop + " " + descr):
                return k
        return None

    # ------------------------------------------------------------------
    def finish(self):
        wall = time.time() - self.t0
        done = [q for q in self.queries if q.status == "done"]
        nontrivial = len([q for q in done if q.witness_ok])
        nprops = sum(getattr(q, "nprops", 0) for q in done)
        ev = {
            "property_id": self.pid,
            "tier": self.tier,
            "seed": self.seed,
            "level": "model_checking",
            "wall_s": round(wall, 1),
            "violations": len(self.violations),
            "coverage": {
                "evaluations": len(self.queries),
                "distinct_nontrivial": nontrivial,
                "rule": "one evaluation = one cbmc (SAT) query over the real code with concrete structure and symbolic values; "
                        "distinct = distinct harness instance (name); non-trivial = its reachability witness assertion was shown reachable "
                        "(the WITNESS assert(0) came back FAILURE) and every unwinding assertion held",
                "samples": [dict(name=q.name, **q.descr) for q in self.queries[:6]],
                "obligations": nprops,
                "discharged": sum(len([1 for k, v in q.props.items() if v[1] == "SUCCESS"]) for q in done),
                "queries": len(self.queries),
                "queries_done": len(done),
                "solver_time_s": round(sum(q.wall for q in self.queries), 1),
                "max_rss_kb": max([q.rss for q in self.queries] or [0]),
                "functions_encoded": self.functions,
                "units": self.units,
                "bounds": self.bounds,
                "stubs": self.stubs,
                "source_rewrites": self.rewrites,
                "outside_claim": self.outside,
                "notes": self.notes[:40],
                "known_findings_reported": sorted(set(k["line"] for k, *_ in self.known_hits)),
                "broken": self.broken[:20],
                "per_query": [dict(name=q.name, status=q.status, wall_s=round(q.wall, 1), props=len(q.props),
                                   rss_kb=q.rss) for q in self.queries][:400],
                "translation_validation_programs": self.tv_programs,
                "exhaustive": False,
            },
            "assumptions": self.assumptions,
        }
        ev["coverage"].update(self.extra)
        os.makedirs(EVDIR, exist_ok=True)
        with open(os.path.join(EVDIR, self.pid + ".json"), "w") as f:
            json.dump(ev, f, indent=1)
        seen = set()
        for k, qn, prop, descr in self.known_hits:
            if k["line"] in seen:
                continue
            seen.add(k["line"])
            print("KNOWN-FINDING: property=%s %s" % (self.pid, k["what"]))
        for q, prop, descr, rpath, verdict in self.violations:
            print("VIOLATION property=%s replay=%s" % (self.pid, rpath))
            print("  query=%s cbmc_property=%s [%s] native=%s" % (q.name, prop, descr, verdict))
        for qn, prop, descr in self.unreplayed[:40]:
            print("  further failing query (not replayed, replay budget used): %s %s [%s]" % (qn, prop, descr))
        for b in self.broken:
            print("CHECK-BROKEN: " + b)
        print("%s tier=%s queries=%d done=%d nontrivial=%d obligations=%d violations=%d broken=%d wall=%.0fs" % (
            self.pid, self.tier, len(self.queries), len(done), nontrivial, nprops, len(self.violations), len(self.broken), wall))
        if self.violations:
            return 1
        if self.broken:
            return 2
        return 0


def is_ub_only(prop, descr):
    return "pointer_arithmetic" in prop or "overflow" in prop or "pointer relation" in descr


def load_known(pid):
    out = []
    p = os.path.join(VERIF, "known-findings.txt")
    if not os.path.exists(p):
        return out
    for line in open(p):
        line = line.strip()
        if not line or line.startswith("#"):
            continue
        m = re.match(r"^(known|fixed): property=(\S+)\s+(.*)$", line)
        if not m or m.group(2) != pid:
            continue
        kind, _, rest = m.groups()
        d = {"kind": kind, "line": line, "what": rest}
        if kind == "known":
            # known: property=Cxx query=<glob> assert=<regex> :: what fails
            mm = re.match(r"^query=(\S+)\s+assert=(\S+)\s+::\s*(.*)$", rest)
            if mm:
                d["query"], d["assert"], d["what"] = mm.group(1), mm.group(2), mm.group(3)
            else:
                d["query"], d["assert"] = "*", "$^"
        out.append(d)
    return out


def repo_head():
    try:
        return subprocess.check_output(["git", "-C", REPO, "rev-parse", "--short", "HEAD"]).decode().strip()
    except Exception:
        return "?"
