#!/bin/sh
# usage: tools/mutant.sh <PROPERTY> <name> <diff> [extra env...]
# run a check against a scratch worktree of /repo's HEAD with <diff> applied (never touches /repo's tree)
set -e
P=$1; NAME=$2; DIFF=$3
W=/tmp/mw/$NAME
rm -rf $W; git -C /repo worktree prune; mkdir -p /tmp/mw
git -C /repo worktree add -q --detach $W HEAD
git -C $W apply $DIFF
cd /verif
VERIF_REPO=$W VERIF_WORK=/tmp/mw/$NAME.work VERIF_EVIDENCE_DIR=/tmp/mw/$NAME.ev VERIF_REPLAY_DIR=/tmp/mw/$NAME.replays ./check $P > /tmp/mw/$NAME.log 2>&1 || true
grep -v "^  \[" /tmp/mw/$NAME.log | cut -c1-260 | head -${HEADN:-6}
git -C /repo worktree remove --force $W; rm -rf /tmp/mw/$NAME.work
