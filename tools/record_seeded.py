#!/usr/bin/env python3
"""collect the confirmed seeded changes into /verif/seeded/<id>-m<k>/ (patch.diff, demo, meta.json)"""
import glob, json, os, re, shutil, sys
V = os.path.dirname(os.path.dirname(os.path.abspath(__file__)))
OUT = "/tmp/mut/out"
conf = {}
for f in sys.argv[1:] or ["/tmp/t/confirm.log"]:
    for line in open(f):
        m = re.match(r"RESULT (\S+) (.*)$", line.strip())
        if m:
            conf[m.group(1)] = m.group(2)
rows = []
for d in sorted(glob.glob(OUT + "/C*")):
    if not os.path.isdir(d):
        continue
    pid = os.path.basename(d)
    for k in (1, 2):
        name = "%s-m%d" % (pid, k)
        diff = os.path.join(d, "m%d.diff" % k)
        if not os.path.exists(diff):
            continue
        c = conf.get(name, "")
        ok = "clean_demo_rc=0" in c and re.search(r"mutant_demo_rc=(?!0\b)\d+", c) and "0 tests failed out of 31" in c
        det = ""
        for det_log in ("/tmp/t/%sm%d.out" % (pid, k), "/tmp/mw/%sm%d.log" % (pid, k)):
            if os.path.exists(det_log) and ("VIOLATION" in open(det_log).read() or "tier=" in open(det_log).read()):
                det = open(det_log).read()
                break
        viol = [l for l in det.splitlines() if l.startswith("VIOLATION") or l.startswith("  query=")][:4]
        summ = [l for l in det.splitlines() if re.match(r"^C\d\d tier=", l)]
        status = "caught" if any(l.startswith("VIOLATION") for l in viol) else ("missed" if summ and "violations=0" in summ[-1] and "broken=0" in summ[-1] else "inconclusive/not run")
        override = os.path.join(d, "m%d_detect_override.json" % k)
        extra = json.load(open(override)) if os.path.exists(override) else {}
        if not ok and not extra.get("keep"):
            rows.append((name, "NOT KEPT (confirmation: %s)" % (c or "not run"), ""))
            continue
        dst = os.path.join(V, "seeded", name)
        os.makedirs(dst, exist_ok=True)
        shutil.copy(diff, os.path.join(dst, "patch.diff"))
        for demo in glob.glob(os.path.join(d, "m%d_demo.*" % k)):
            shutil.copy(demo, os.path.join(dst, os.path.basename(demo).replace("m%d_" % k, "")))
        notes = open(os.path.join(d, "m%d_meta.txt" % k)).read() if os.path.exists(os.path.join(d, "m%d_meta.txt" % k)) else ""
        meta = {"property": pid, "name": name, "author": "independent sub-agent given only the property text and a scratch worktree",
                "what_it_needs_and_notes": notes,
                "confirmation": {"how": "tools/confirm_mutant.sh: scratch worktree of /repo HEAD; clean build + demo; apply patch; build; ctest; demo", "result": c},
                "detection": {"how": "tools/mutant.sh %s <name> patch.diff (scratch worktree + VERIF_REPO; /repo untouched)" % pid, "status": extra.get("status", status),
                              "first_lines": viol, "summary": summ[-1:] }}
        meta["detection"].update({k_: v_ for k_, v_ in extra.items() if k_ not in ("keep", "status")})
        json.dump(meta, open(os.path.join(dst, "meta.json"), "w"), indent=1)
        rows.append((name, meta["detection"]["status"], (viol[1].strip()[:150] if len(viol) > 1 else "")))
with open(os.path.join(V, "seeded", "RESULTS.md"), "w") as f:
    f.write("# Seeded changes: detection results\n\n| change | status | first failing query |\n|---|---|---|\n")
    for r in rows:
        f.write("| %s | %s | %s |\n" % r)
print("\n".join("%-10s %-28s %s" % r for r in rows))
