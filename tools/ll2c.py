#!/usr/bin/env python3
"""ll2c: translate a (clang-14, typed-pointer) LLVM IR module into plain C that
cbmc's C front end (and gcc, for differential validation) accepts.

Memory model of the generated C: every LLVM pointer is a `char*` (type P);
address computations (getelementptr) are done in bytes with a struct layout
computed here for the x86-64 SysV data layout and cross-checked by
_Static_asserts against the C compiler's own layout of mirrored struct types;
loads/stores are `*(T*)p`. Integers are unsigned fixed-width C types, signed
operations cast locally. SSA values are C locals, phis are lowered to
edge copies. Exceptions are not supported (compile with -fno-exceptions).
"""
import re, sys, struct

# ----------------------------------------------------------------------------
# tokenizer
TOK = re.compile(r'''
   (?P<ws>\s+)
 | (?P<str>c"(?:[^"\\]|\\[0-9A-Fa-f]{2}|\\\\)*")
 | (?P<lid>%"(?:[^"\\]|\\.)*"|%[-a-zA-Z$._0-9]+)
 | (?P<gid>@"(?:[^"\\]|\\.)*"|@[-a-zA-Z$._0-9]+)
 | (?P<meta>![-a-zA-Z$._0-9]*(?:\([^)]*\))?)
 | (?P<attr>\#[0-9]+)
 | (?P<hex>0x[KLMHR]?[0-9A-Fa-f]+)
 | (?P<num>-?[0-9]+\.[0-9]*(?:[eE][-+]?[0-9]+)?|-?[0-9]+)
 | (?P<dots>\.\.\.)
 | (?P<qstr>"(?:[^"\\]|\\.)*")
 | (?P<word>[a-zA-Z_][a-zA-Z_0-9.]*)
 | (?P<punct><\{|\}>|[()\[\]{}<>,=*:])
''', re.X)

def tokenize(s):
    out = []
    pos = 0
    n = len(s)
    while pos < n:
        if s[pos] == ';':          # comment to end of line
            break
        m = TOK.match(s, pos)
        if not m:
            raise SyntaxError('tokenize: %r' % s[pos:pos+40])
        pos = m.end()
        k = m.lastgroup
        if k == 'ws':
            continue
        out.append((k, m.group(k)))
    return out

class Toks:
    def __init__(self, toks): self.t = toks; self.i = 0
    def peek(self, k=0):
        return self.t[self.i+k] if self.i+k < len(self.t) else ('eof', '')
    def next(self):
        x = self.peek(); self.i += 1; return x
    def accept(self, v):
        if self.peek()[1] == v: self.i += 1; return True
        return False
    def expect(self, v):
        x = self.next()
        if x[1] != v: raise SyntaxError('expected %r got %r at %r' % (v, x, self.t[max(0,self.i-6):self.i+4]))
    def eof(self): return self.i >= len(self.t)

# ----------------------------------------------------------------------------
# types
class T:  # base
    pass
class TVoid(T):
    def __repr__(s): return 'void'
class TInt(T):
    def __init__(s, w): s.w = w
    def __repr__(s): return 'i%d' % s.w
class TFloat(T):
    def __init__(s, k): s.k = k   # 'float' | 'double' | 'x86_fp80'
    def __repr__(s): return s.k
class TPtr(T):
    def __init__(s, to): s.to = to
    def __repr__(s): return '%r*' % (s.to,)
class TArr(T):
    def __init__(s, n, e): s.n = n; s.e = e
    def __repr__(s): return '[%d x %r]' % (s.n, s.e)
class TVec(T):
    def __init__(s, n, e): s.n = n; s.e = e
class TStruct(T):
    def __init__(s, fields, packed=False, name=None):
        s.fields = fields; s.packed = packed; s.name = name; s.opaque = fields is None
    def __repr__(s): return s.name or ('{%s}' % ','.join(map(repr, s.fields)))
class TFunc(T):
    def __init__(s, ret, params, vararg): s.ret = ret; s.params = params; s.vararg = vararg
    def __repr__(s): return '%r(%s)' % (s.ret, ','.join(map(repr, s.params)))
class TOther(T):
    def __init__(s, k): s.k = k

class Module:
    def __init__(self):
        self.named = {}      # name -> TStruct
        self.globals = {}    # name -> dict
        self.funcs = {}      # name -> Func (defined)
        self.decls = {}      # name -> TFunc
        self.aliases = {}    # name -> target name
        self.order = []
        self.ctors = []

M = Module()

def named_struct(name):
    if name not in M.named:
        M.named[name] = TStruct(None, False, name)
    return M.named[name]

def parse_type(tk):
    k, v = tk.next()
    if k == 'word':
        if v == 'void': t = TVoid()
        elif re.fullmatch(r'i[0-9]+', v): t = TInt(int(v[1:]))
        elif v in ('float', 'double', 'x86_fp80', 'half', 'fp128'): t = TFloat(v)
        elif v in ('opaque',): t = TStruct(None)
        elif v in ('metadata', 'label', 'token'): t = TOther(v)
        elif v == 'ptr': t = TPtr(TInt(8))
        else: raise SyntaxError('type? %r' % v)
    elif k == 'lid':
        t = named_struct(v)
    elif v == '{' or v == '<{':
        packed = (v == '<{')
        fields = []
        close = '}>' if packed else '}'
        if not tk.accept(close):
            while True:
                fields.append(parse_type(tk))
                if tk.accept(close): break
                tk.expect(',')
        t = TStruct(fields, packed)
    elif v == '[':
        n = int(tk.next()[1]); tk.expect('x'); e = parse_type(tk); tk.expect(']')
        t = TArr(n, e)
    elif v == '<':
        n = int(tk.next()[1]); tk.expect('x'); e = parse_type(tk); tk.expect('>')
        t = TVec(n, e)
    else:
        raise SyntaxError('type? %r %r' % (k, v))
    # suffixes
    while True:
        if tk.accept('*'):
            t = TPtr(t)
        elif tk.peek()[1] == 'addrspace':
            tk.next(); tk.expect('('); tk.next(); tk.expect(')')
        elif tk.peek()[1] == '(' :
            # function type
            tk.next()
            params = []; vararg = False
            if not tk.accept(')'):
                while True:
                    if tk.accept('...'): vararg = True
                    else: params.append(parse_type(tk))
                    if tk.accept(')'): break
                    tk.expect(',')
            t = TFunc(t, params, vararg)
        else:
            break
    return t

# layout (x86-64 SysV)
def size_align(t):
    if isinstance(t, TInt):
        b = max(1, (t.w + 7) // 8)
        p = 1
        while p < b: p *= 2
        return p, min(p, 8) if t.w <= 64 else 16
    if isinstance(t, TFloat):
        return {'float': (4, 4), 'double': (8, 8), 'x86_fp80': (16, 16), 'half': (2, 2), 'fp128': (16, 16)}[t.k]
    if isinstance(t, TPtr): return 8, 8
    if isinstance(t, TArr):
        s, a = size_align(t.e); return s * t.n, a
    if isinstance(t, TVec):
        s, a = size_align(t.e); return s * t.n, s * t.n
    if isinstance(t, TStruct):
        if t.opaque: raise ValueError('size of opaque %r' % t.name)
        off = 0; al = 1
        for f in t.fields:
            s, a = size_align(f)
            if t.packed: a = 1
            off = (off + a - 1) // a * a
            off += s; al = max(al, a)
        return (off + al - 1) // al * al, al
    if isinstance(t, TFunc): return 1, 1
    raise ValueError('size_align %r' % t)

def field_off(t, idx):
    off = 0
    for i, f in enumerate(t.fields):
        s, a = size_align(f)
        if t.packed: a = 1
        off = (off + a - 1) // a * a
        if i == idx: return off
        off += s
    raise IndexError

# ----------------------------------------------------------------------------
# C naming
def cname(n):
    # n includes sigil
    s = n[1:]
    if s.startswith('"'): s = s[1:-1]
    s = re.sub(r'[^A-Za-z0-9_]', lambda m: '_%02x' % ord(m.group(0)), s)
    if n[0] == '%':
        return 'v_' + s
    return s

_struct_cnames = {}
def struct_cname(t):
    if t.name:
        return 'S_' + cname(t.name)
    key = repr(t) + ('P' if t.packed else '')
    if key not in _struct_cnames:
        _struct_cnames[key] = 'A%d' % len(_struct_cnames)
        ANON.append(t)
    return _struct_cnames[key]
ANON = []

def ctype(t):
    """C type for an SSA value / field of LLVM type t"""
    if isinstance(t, TVoid): return 'void'
    if isinstance(t, TInt):
        if t.w == 1: return 'uint8_t'
        for w in (8, 16, 32, 64):
            if t.w <= w: return 'uint%d_t' % w
        if t.w <= 128: return 'unsigned __int128'
        raise ValueError('int width %d' % t.w)
    if isinstance(t, TFloat):
        return {'float': 'float', 'double': 'double', 'x86_fp80': 'long double'}[t.k]
    if isinstance(t, TPtr): return 'P'
    if isinstance(t, TStruct): return 'struct ' + struct_cname(t)
    if isinstance(t, TArr): return 'struct ' + arr_cname(t)
    raise ValueError('ctype %r' % t)

_arr_cnames = {}
ARRS = []
def arr_cname(t):
    key = repr(t)
    if key not in _arr_cnames:
        _arr_cnames[key] = 'R%d' % len(_arr_cnames)
        ARRS.append(t)
    return _arr_cnames[key]

def sint(t):
    return ctype(t).replace('uint', 'int').replace('unsigned __int128', '__int128')

# ----------------------------------------------------------------------------
# values / constants -> C expressions
class Ctx:
    """per function: SSA types"""
    def __init__(self): self.types = {}

def parse_const_after_type(tk, t, ctx):
    """parse a value of (already parsed) type t, return C expression string (typed as ctype(t))"""
    k, v = tk.peek()
    if k == 'lid':
        tk.next(); return cname(v)
    if k == 'gid':
        tk.next(); return gaddr(v)
    if k == 'num' or k == 'hex':
        tk.next()
        if isinstance(t, TFloat):
            return float_lit(v, t)
        iv = int(v)
        return int_lit(iv, t)
    if k == 'word':
        if v in ('true', 'false'):
            tk.next(); return '1' if v == 'true' else '0'
        if v == 'null':
            tk.next(); return '((P)0)'
        if v in ('undef', 'poison', 'zeroinitializer'):
            tk.next(); return zero_of(t)
        if v in ('getelementptr',):
            tk.next(); tk.accept('inbounds'); tk.expect('(')
            bt = parse_type(tk); tk.expect(',')
            pt = parse_type(tk); base = parse_const_after_type(tk, pt, ctx)
            idx = []
            while tk.accept(','):
                tk.accept('inrange')
                it = parse_type(tk); idx.append((it, parse_const_after_type(tk, it, ctx)))
            tk.expect(')')
            return gep_expr(bt, base, idx)
        if v in ('bitcast', 'addrspacecast'):
            tk.next(); tk.expect('(')
            st = parse_type(tk); e = parse_const_after_type(tk, st, ctx); tk.expect('to'); dt = parse_type(tk); tk.expect(')')
            return e
        if v == 'ptrtoint':
            tk.next(); tk.expect('(')
            st = parse_type(tk); e = parse_const_after_type(tk, st, ctx); tk.expect('to'); dt = parse_type(tk); tk.expect(')')
            return '((%s)(uintptr_t)%s)' % (ctype(dt), e)
        if v == 'inttoptr':
            tk.next(); tk.expect('(')
            st = parse_type(tk); e = parse_const_after_type(tk, st, ctx); tk.expect('to'); dt = parse_type(tk); tk.expect(')')
            return '((P)(uintptr_t)%s)' % e
        if v in ('add', 'sub', 'mul', 'and', 'or', 'xor', 'shl', 'lshr'):
            tk.next()
            while tk.peek()[1] in ('nsw', 'nuw', 'exact'): tk.next()
            tk.expect('(')
            t1 = parse_type(tk); a = parse_const_after_type(tk, t1, ctx); tk.expect(',')
            t2 = parse_type(tk); b = parse_const_after_type(tk, t2, ctx); tk.expect(')')
            op = {'add': '+', 'sub': '-', 'mul': '*', 'and': '&', 'or': '|', 'xor': '^', 'shl': '<<', 'lshr': '>>'}[v]
            return '((%s)(%s %s %s))' % (ctype(t1), a, op, b)
        if v in ('trunc', 'zext', 'sext'):
            tk.next(); tk.expect('(')
            st = parse_type(tk); e = parse_const_after_type(tk, st, ctx); tk.expect('to'); dt = parse_type(tk); tk.expect(')')
            return cast_int(v, st, dt, e)
    if k == 'str':
        tk.next()
        return cstring_init(v, t)
    if v in ('{', '<{', '['):
        tk.next()
        close = {'{': '}', '<{': '}>', '[': ']'}[v]
        elems = []
        if not tk.accept(close):
            while True:
                et = parse_type(tk); elems.append((et, parse_const_after_type(tk, et, ctx)))
                if tk.accept(close): break
                tk.expect(',')
        return agg_init(t, elems)
    raise SyntaxError('const? %r %r' % (k, v))

def int_lit(iv, t):
    w = t.w
    iv &= (1 << w) - 1
    if w > 64:
        hi = iv >> 64; lo = iv & ((1 << 64) - 1)
        return '((((unsigned __int128)%dULL)<<64)|%dULL)' % (hi, lo)
    return '((%s)%dULL)' % (ctype(t), iv)

def float_lit(v, t):
    if v.startswith('0x'):
        if v[2] in 'KLMHR': raise ValueError('fp80 literal')
        bits = int(v, 16)
        d = struct.unpack('<d', struct.pack('<Q', bits))[0]
    else:
        d = float(v)
    if d != d:
        return '(%s)__builtin_nan("")' % ctype(t)
    if d in (float('inf'), float('-inf')):
        return '(%s)(%s__builtin_inf())' % (ctype(t), '-' if d < 0 else '')
    return '((%s)%s)' % (ctype(t), d.hex())

def zero_of(t):
    if isinstance(t, (TInt,)): return '((%s)0)' % ctype(t)
    if isinstance(t, TFloat): return '((%s)0)' % ctype(t)
    if isinstance(t, TPtr): return '((P)0)'
    if isinstance(t, (TStruct, TArr)): return '((%s){0})' % ctype(t)
    raise ValueError('zero_of %r' % t)

def cstring_init(v, t):
    # c"..." -> array initializer
    s = v[2:-1]
    bs = []
    i = 0
    while i < len(s):
        if s[i] == '\\':
            if s[i+1] == '\\': bs.append(92); i += 2
            else: bs.append(int(s[i+1:i+3], 16)); i += 3
        else:
            bs.append(ord(s[i])); i += 1
    LAST_STR[0] = bytes(bs)
    return '{{' + ','.join(str(b) for b in bs) + '}}'
LAST_STR = [None]

def agg_init(t, elems):
    inner = ','.join(strip_compound(e) for _, e in elems)
    if isinstance(t, TArr):
        return '((%s){{%s}})' % (ctype(t), inner)
    return '((%s){%s})' % (ctype(t), inner)

def strip_compound(e):
    return e

def gaddr(g):
    return '((P)&%s)' % cname(g)

BYTE_EXPRS = set()   # C expressions known to point into i8 arrays (raw byte storage)

def gep_expr(bt, base, idx):
    """base: C expr of type P; idx list of (type, cexpr)"""
    r = gep_expr_(bt, base, idx)
    return r

def is_i8(t):
    return isinstance(t, TInt) and t.w == 8

def gep_expr_(bt, base, idx):
    t = bt
    terms = []
    const = 0
    first = True
    for it, e in idx:
        cval = None
        m = re.fullmatch(r'\(\(u?int\d+_t\)(\d+)ULL\)', e)
        if m:
            cval = int(m.group(1))
            w = it.w
            if cval >= 1 << (w - 1): cval -= 1 << w
        if first:
            s, _ = size_align(t)
            if cval is not None: const += cval * s
            else: terms.append('(int64_t)(%s)%s * %d' % (sint(it), e, s))
            first = False
            continue
        if isinstance(t, TStruct):
            assert cval is not None, 'struct index must be constant'
            const += field_off(t, cval); t = t.fields[cval]
        elif isinstance(t, (TArr, TVec)):
            s, _ = size_align(t.e)
            if cval is not None: const += cval * s
            else: terms.append('(int64_t)(%s)%s * %d' % (sint(it), e, s))
            t = t.e
        else:
            raise ValueError('gep into %r' % t)
    off = ' + '.join(terms + ([str(const)] if const or not terms else []))
    res = base if off == '0' else '(%s + (%s))' % (base, off)
    if is_i8(t) or (isinstance(t, TArr) and is_i8(t.e)) or base in BYTE_EXPRS:
        BYTE_EXPRS.add(res)
    return res

def cast_int(op, st, dt, e):
    if op == 'trunc':
        if dt.w == 1: return '((uint8_t)((%s) & 1))' % e
        r = '((%s)(%s))' % (ctype(dt), e)
        if dt.w not in (8, 16, 32, 64, 128): r = '((%s)(%s & ((1ULL<<%d)-1)))' % (ctype(dt), r, dt.w)
        return r
    if op == 'zext':
        return '((%s)(%s))' % (ctype(dt), e)
    if op == 'sext':
        if st.w == 1: return '((%s)(-(%s)(%s)))' % (ctype(dt), sint(dt), e)
        if st.w in (8, 16, 32, 64):
            return '((%s)(%s)(%s)(%s))' % (ctype(dt), sint(dt), sint(st), e)
        sh = {True: 0}
        cw = int(re.search(r'\d+', ctype(st)).group(0))
        return '((%s)(((%s)((%s)(%s) << %d)) >> %d))' % (ctype(dt), sint(dt), sint(dt), e, 64 - st.w if dt.w == 64 else cw - st.w, 64 - st.w if dt.w == 64 else cw - st.w)
    raise ValueError(op)

# ----------------------------------------------------------------------------
# module parsing
class Func:
    def __init__(s): s.name = None; s.ret = None; s.params = []; s.vararg = False; s.blocks = []; s.lines = []

LINKAGE = {'private', 'internal', 'available_externally', 'linkonce', 'weak', 'common', 'appending', 'extern_weak',
           'linkonce_odr', 'weak_odr', 'external', 'dso_local', 'dso_preemptable', 'default', 'hidden', 'protected',
           'unnamed_addr', 'local_unnamed_addr', 'thread_local', 'externally_initialized'}
PATTR = {'noundef', 'nonnull', 'noalias', 'nocapture', 'readonly', 'readnone', 'writeonly', 'zeroext', 'signext', 'inreg',
         'returned', 'nofree', 'nest', 'immarg', 'swiftself', 'noreturn', 'nounwind', 'inalloca', 'nosync', 'mustprogress'}

def skip_param_attrs(tk):
    while True:
        k, v = tk.peek()
        if v in PATTR: tk.next(); continue
        if v in ('align', 'dereferenceable', 'dereferenceable_or_null'):
            tk.next()
            if tk.accept('('): tk.next(); tk.expect(')')
            else: tk.next()
            continue
        if v in ('byval', 'sret', 'byref', 'preallocated', 'elementtype'):
            tk.next()
            if tk.accept('('): parse_type(tk); tk.expect(')')
            continue
        break

def parse_module(text):
    lines = text.split('\n')
    i = 0
    n = len(lines)
    while i < n:
        ln = lines[i]
        if not ln.strip() or ln.startswith(';') or ln.startswith('source_filename') or ln.startswith('target ') \
           or ln.startswith('attributes ') or ln.startswith('!') or ln.startswith('$') or ln.startswith('module asm'):
            i += 1; continue
        if ln.startswith('%'):
            tk = Toks(tokenize(ln))
            name = tk.next()[1]; tk.expect('='); tk.expect('type')
            st = named_struct(name)
            if tk.peek()[1] == 'opaque':
                pass
            else:
                t = parse_type(tk)
                st.fields = t.fields; st.packed = t.packed; st.opaque = False
            i += 1; continue
        if ln.startswith('@'):
            parse_global(ln); i += 1; continue
        if ln.startswith('declare'):
            tk = Toks(tokenize(ln)); tk.next()
            parse_fn_header(tk, None)
            i += 1; continue
        if ln.startswith('define'):
            f = Func()
            tk = Toks(tokenize(ln)); tk.next()
            parse_fn_header(tk, f)
            i += 1
            body = []
            while lines[i] != '}':
                body.append(lines[i]); i += 1
            i += 1
            f.lines = body
            M.funcs[f.name] = f
            M.order.append(f.name)
            continue
        raise SyntaxError('module line? %r' % ln[:80])

def parse_fn_header(tk, f):
    while tk.peek()[1] in LINKAGE or tk.peek()[1] in PATTR or tk.peek()[1] in ('align', 'dereferenceable', 'dereferenceable_or_null', 'fastcc', 'ccc', 'coldcc'):
        if tk.peek()[1] in ('align', 'dereferenceable', 'dereferenceable_or_null'):
            skip_param_attrs(tk)
        else: tk.next()
    ret = parse_ret_type(tk)
    name = tk.next()[1]
    tk.expect('(')
    params = []; vararg = False
    if not tk.accept(')'):
        while True:
            if tk.accept('...'): vararg = True
            else:
                pt = parse_type(tk); skip_param_attrs(tk)
                pn = None
                if tk.peek()[0] == 'lid': pn = tk.next()[1]
                params.append((pt, pn))
            if tk.accept(')'): break
            tk.expect(',')
    if f is None:
        M.decls[name] = TFunc(ret, [p for p, _ in params], vararg)
    else:
        f.name = name; f.ret = ret; f.params = params; f.vararg = vararg

def parse_ret_type(tk):
    # function-typed returns don't occur; avoid parse_type swallowing "(" of the param list
    k, v = tk.next()
    if k == 'word':
        if v == 'void': t = TVoid()
        elif re.fullmatch(r'i[0-9]+', v): t = TInt(int(v[1:]))
        elif v in ('float', 'double', 'x86_fp80'): t = TFloat(v)
        else: raise SyntaxError('ret type %r' % v)
    elif k == 'lid': t = named_struct(v)
    elif v in ('{', '<{'):
        tk.i -= 1
        # parse aggregate type but stop before '(' : aggregates have no suffix calls so safe
        save = tk.i
        t = parse_type_nofn(tk)
        return t
    elif v == '[':
        tk.i -= 1; return parse_type_nofn(tk)
    else: raise SyntaxError('ret type %r' % v)
    while tk.accept('*'):
        t = TPtr(t)
    if tk.peek()[1] == '(' :
        # pointer-to-function return: "void (i32)* @f(" -- look ahead for ')*'
        # find matching paren
        depth = 0; j = tk.i
        while True:
            x = tk.t[j][1]
            if x == '(': depth += 1
            elif x == ')':
                depth -= 1
                if depth == 0: break
            j += 1
        if j + 1 < len(tk.t) and tk.t[j+1][1] == '*':
            tk.i -= 0
            # reparse with full parser from type start is hard; handle simply
            sub = Toks(tk.t[tk.i:j+1]);
            # consume function suffix
            tk.i = j + 1
            t = TFunc(t, [], False)
            while tk.accept('*'): t = TPtr(t)
    return t

def parse_type_nofn(tk):
    k, v = tk.next()
    if v in ('{', '<{'):
        packed = v == '<{'; close = '}>' if packed else '}'
        fields = []
        if not tk.accept(close):
            while True:
                fields.append(parse_type(tk))
                if tk.accept(close): break
                tk.expect(',')
        t = TStruct(fields, packed)
    elif v == '[':
        nn = int(tk.next()[1]); tk.expect('x'); e = parse_type(tk); tk.expect(']'); t = TArr(nn, e)
    else: raise SyntaxError(v)
    while tk.accept('*'): t = TPtr(t)
    return t

def parse_global(ln):
    tk = Toks(tokenize(ln))
    name = tk.next()[1]; tk.expect('=')
    external = False
    while tk.peek()[1] in LINKAGE:
        if tk.peek()[1] in ('external', 'extern_weak', 'available_externally'): external = True
        tk.next()
        if tk.peek()[1] == '(':   # thread_local(initialexec)
            tk.next(); tk.next(); tk.expect(')')
    if tk.peek()[1] == 'alias':
        tk.next(); parse_type(tk); tk.expect(','); parse_type(tk)
        # target may be a constant expr; only support direct
        k, v = tk.next()
        if k == 'gid': M.aliases[name] = v
        elif v == 'bitcast':
            tk.expect('('); parse_type(tk); M.aliases[name] = tk.next()[1]
        return
    kind = tk.next()[1]
    assert kind in ('global', 'constant'), ln[:80]
    t = parse_type(tk)
    init = None
    if not external and not tk.eof() and tk.peek()[1] != ',':
        if name == '@llvm.global_ctors':
            # [N x {i32, void()*, i8*}] [ {..} {i32 65535, void ()* @f, i8* null}, ...]
            for m in re.finditer(r'void \(\)\* (@[-A-Za-z0-9_$.]+)', ln.split('=', 1)[1]):
                M.ctors.append(m.group(1))
            return
        LAST_STR[0] = None
        init = parse_const_after_type(tk, t, None)
        if tk.i > 0 and LAST_STR[0] is not None and init.startswith('{{'): STRS[cname(name)] = LAST_STR[0]
    M.globals[name] = dict(name=name, type=t, init=init, const=(kind == 'constant'), external=external)
    M.order.append(name)

# ----------------------------------------------------------------------------
# function body translation
def split_blocks(f):
    blocks = []
    cur = ('entry', [])
    # entry label is implicit: number = count of params (unnamed) ; we name it specially
    for ln in f.lines:
        s = ln.strip()
        if not s or s.startswith(';'): continue
        m = re.match(r'^([-a-zA-Z$._0-9]+|"(?:[^"\\]|\\.)*"):', ln)
        if m:
            blocks.append(cur)
            cur = (m.group(1), [])
            continue
        # continuation lines of switch
        if cur[1] and cur[1][-1].lstrip().startswith('switch') and not cur[1][-1].rstrip().endswith(']'):
            cur[1][-1] += ' ' + s
            continue
        cur[1].append(s)
    blocks.append(cur)
    return blocks

def blabel(fn, lbl):
    if lbl.startswith('%'): lbl = lbl[1:]
    if lbl.startswith('"'): lbl = lbl[1:-1]
    return 'L_' + re.sub(r'[^A-Za-z0-9_]', lambda m: '_%02x' % ord(m.group(0)), lbl)

ICMP = {'eq': ('==', 0), 'ne': ('!=', 0), 'ugt': ('>', 0), 'uge': ('>=', 0), 'ult': ('<', 0), 'ule': ('<=', 0),
        'sgt': ('>', 1), 'sge': ('>=', 1), 'slt': ('<', 1), 'sle': ('<=', 1)}
BINOP = {'add': '+', 'sub': '-', 'mul': '*', 'and': '&', 'or': '|', 'xor': '^'}

class FT:
    """function translator"""
    def __init__(self, f):
        self.f = f; self.decl = {}; self.out = []; self.va_alloca = None; self.p2i = {}
        self.entry_name = None

    def operand(self, tk, t):
        return parse_const_after_type(tk, t, self)

    def typed_operand(self, tk):
        t = parse_type(tk); skip_param_attrs(tk)
        return t, self.operand(tk, t)

    def define(self, name, t):
        self.decl[cname(name)] = t
        return cname(name)

    def translate(self):
        f = self.f
        blocks = split_blocks(f)
        # name unnamed params
        nparam = 0
        params = []
        for idx, (pt, pn) in enumerate(f.params):
            if pn is None: pn = '%' + str(idx)
            params.append((pt, pn))
        f.cparams = params
        # entry label: first unnamed slot after params
        # collect phi info first: for each block, list of (dest, type, [(valexpr, pred)])
        phis = {}
        for lbl, ins in blocks:
            for s in ins:
                m = re.match(r'^(%\S+) = phi (.*)$', s)
                if not m: break
                tk = Toks(tokenize(m.group(2)))
                t = parse_type(tk)
                inc = []
                while True:
                    tk.expect('[')
                    v = self.operand(tk, t); tk.expect(',')
                    p = tk.next()[1]; tk.expect(']')
                    inc.append((v, p))
                    if not tk.accept(','): break
                phis.setdefault(lbl, []).append((m.group(1), t, inc))
                self.define(m.group(1), t)
                self.decl[cname(m.group(1)) + '__in'] = t
        self.phis = phis
        BYTE_EXPRS.clear()   # per function: SSA names repeat across functions
        # allocation sites: does the result of operator new get bitcast to a typed pointer?
        alltext = '\n'.join(s_ for _, ins_ in blocks for s_ in ins_)
        self.alloc_typed = set()
        self.alloc_types = {}
        for m_ in re.finditer(r'bitcast i8\* (%[-a-zA-Z$._0-9]+) to (?!i8\*)([^\n]*)', alltext):
            self.alloc_typed.add(m_.group(1))
            try:
                tk_ = Toks(tokenize(m_.group(2)))
                t_ = parse_type(tk_)
                if isinstance(t_, TPtr): self.alloc_types.setdefault(m_.group(1), t_.to)
            except Exception:
                pass
        # the entry block label in preds: clang names it %N where N = number of params (if unnamed)
        entry_pred = '%' + str(len(f.params))
        body = []
        for bi, (lbl, ins) in enumerate(blocks):
            self.cur = lbl if bi else entry_pred[1:]
            body.append('%s: ;' % blabel(f, self.cur))
            for (d, t, inc) in phis.get(lbl, []):
                body.append('  %s = %s__in;' % (cname(d), cname(d)))
            for s in ins:
                if re.match(r'^%\S+ = phi ', s): continue
                try:
                    body.extend('  ' + x for x in self.instr(s))
                except Exception as e:
                    raise RuntimeError('in %s: %s\n  %s' % (f.name, s, e))
        self.body = body

    def edge(self, target):
        """emit phi copies for edge cur->target then goto"""
        tl = target[1:] if target.startswith('%') else target
        if tl.startswith('"'): pass
        out = []
        key = tl
        for (d, t, inc) in self.phis.get(key, []):
            for v, p in inc:
                if p[1:] == self.cur or p == '%' + self.cur:
                    out.append('%s__in = %s;' % (cname(d), v)); break
            else:
                raise RuntimeError('phi: no incoming for pred %s in block %s' % (self.cur, key))
        out.append('goto %s;' % blabel(self.f, tl))
        return '{ ' + ' '.join(out) + ' }'

    def yield_point(self):
        self.nyield = getattr(self, 'nyield', 0) + 1
        k = self.nyield
        return 'if(verif_yield()) { pc__ = %d; return 0; } case %d: ;' % (k, k)

    def instr_load_rest(self, tk, dest):
        t = parse_type(tk); tk.expect(','); pt, p = self.typed_operand(tk)
        d = self.define(dest, t)
        return ['%s = *(%s*)%s;' % (d, ctype(t), p)]

    def instr(self, s):
        dest = None
        m = re.match(r'^(%"(?:[^"\\]|\\.)*"|%[-a-zA-Z$._0-9]+) = (.*)$', s)
        if m: dest, s = m.group(1), m.group(2)
        tk = Toks(tokenize(s))
        op = tk.next()[1]
        while op in ('tail', 'musttail', 'notail'): op = tk.next()[1]
        if op in BINOP or op in ('udiv', 'sdiv', 'urem', 'srem', 'shl', 'lshr', 'ashr'):
            while tk.peek()[1] in ('nsw', 'nuw', 'exact'): tk.next()
            t = parse_type(tk); a = self.operand(tk, t); tk.expect(','); b = self.operand(tk, t)
            d = self.define(dest, t); ct = ctype(t)
            if op == 'sub' and a in self.p2i and b in self.p2i:
                return ['%s = (%s)LL_PDIFF(%s, %s);' % (d, ct, self.p2i[a], self.p2i[b])]
            if op in BINOP: e = '(%s)(%s %s %s)' % (ct, a, BINOP[op], b)
            elif op == 'udiv': e = '(%s)(%s / %s)' % (ct, a, b)
            elif op == 'urem': e = '(%s)(%s %% %s)' % (ct, a, b)
            elif op == 'sdiv': e = '(%s)((%s)%s / (%s)%s)' % (ct, sint(t), a, sint(t), b)
            elif op == 'srem': e = '(%s)((%s)%s %% (%s)%s)' % (ct, sint(t), a, sint(t), b)
            elif op == 'shl': e = '(%s)(%s << %s)' % (ct, a, b)
            elif op == 'lshr': e = '(%s)(%s >> %s)' % (ct, a, b)
            elif op == 'ashr': e = '(%s)((%s)%s >> %s)' % (ct, sint(t), a, b)
            if t.w not in (8, 16, 32, 64, 128) and t.w != 1: e = '(%s)((%s) & ((1ULL<<%d)-1))' % (ct, e, t.w)
            if t.w == 1: e = '(%s)((%s) & 1)' % (ct, e)
            return ['%s = %s;' % (d, e)]
        if op in ('fadd', 'fsub', 'fmul', 'fdiv', 'frem'):
            while tk.peek()[0] == 'word' and tk.peek()[1] in ('fast', 'nnan', 'ninf', 'nsz', 'arcp', 'contract', 'afn', 'reassoc'): tk.next()
            t = parse_type(tk); a = self.operand(tk, t); tk.expect(','); b = self.operand(tk, t)
            d = self.define(dest, t)
            if op == 'frem': return ['%s = %s(%s, %s);' % (d, 'fmodf' if t.k == 'float' else 'fmod', a, b)]
            return ['%s = %s %s %s;' % (d, a, {'fadd': '+', 'fsub': '-', 'fmul': '*', 'fdiv': '/'}[op], b)]
        if op == 'fneg':
            while tk.peek()[0] == 'word' and tk.peek()[1] in ('fast', 'nnan', 'ninf', 'nsz', 'arcp', 'contract', 'afn', 'reassoc'): tk.next()
            t = parse_type(tk); a = self.operand(tk, t); d = self.define(dest, t)
            return ['%s = -%s;' % (d, a)]
        if op == 'icmp':
            pred = tk.next()[1]; t = parse_type(tk); a = self.operand(tk, t); tk.expect(','); b = self.operand(tk, t)
            d = self.define(dest, TInt(1)); cop, sg = ICMP[pred]
            if isinstance(t, TPtr):
                if pred in ('eq', 'ne'): return ['%s = (%s %s %s);' % (d, a, cop, b)]
                return ['%s = LL_PCMP(%s, %s, %s);' % (d, a, cop, b)]
            if a in self.p2i and b in self.p2i: return ['%s = LL_PCMP(%s, %s, %s);' % (d, self.p2i[a], cop, self.p2i[b])]
            if sg: return ['%s = ((%s)%s %s (%s)%s);' % (d, sint(t), a, cop, sint(t), b)]
            return ['%s = (%s %s %s);' % (d, a, cop, b)]
        if op == 'fcmp':
            while tk.peek()[0] == 'word' and tk.peek()[1] in ('fast', 'nnan', 'ninf', 'nsz', 'arcp', 'contract', 'afn', 'reassoc'): tk.next()
            pred = tk.next()[1]; t = parse_type(tk); a = self.operand(tk, t); tk.expect(','); b = self.operand(tk, t)
            d = self.define(dest, TInt(1))
            un = '(%s != %s || %s != %s)' % (a, a, b, b)
            base = {'eq': '==', 'gt': '>', 'ge': '>=', 'lt': '<', 'le': '<=', 'ne': '!='}
            if pred == 'true': e = '1'
            elif pred == 'false': e = '0'
            elif pred == 'ord': e = '!%s' % un
            elif pred == 'uno': e = un
            elif pred[0] == 'o':
                if pred == 'one': e = '(!%s && %s != %s)' % (un, a, b)
                else: e = '(%s %s %s)' % (a, base[pred[1:]], b)
            else:
                if pred == 'une': e = '(%s != %s)' % (a, b)
                else: e = '(%s || %s %s %s)' % (un, a, base[pred[1:]], b)
            return ['%s = %s;' % (d, e)]
        if op == 'alloca':
            tk.accept('inalloca')
            t = parse_type(tk)
            cnt = None
            if tk.accept(','):
                if tk.peek()[1] != 'align':
                    ct_, cnt = self.typed_operand(tk)
            d = self.define(dest, TPtr(t))
            if isinstance(t, TArr) and isinstance(t.e, TStruct) and t.e.name == '%struct.__va_list_tag':
                self.va_alloca = d
                self.decl[d] = 'va_list'
                return []
            if cnt is not None and not re.fullmatch(r'\(\(u?int\d+_t\)\d+ULL\)', cnt):
                s_, _ = size_align(t)
                return ['%s = (P)__builtin_alloca((size_t)%s * %d);' % (d, cnt, s_)]
            n = 1
            if cnt is not None: n = int(re.search(r'\)(\d+)ULL', cnt).group(1))
            self.decl[d + '__mem'] = ('mem', t, n)
            return ['%s = (P)&%s__mem;' % (d, d)]
        if op == 'load':
            is_atomic = tk.accept('atomic'); tk.accept('volatile')
            if is_atomic and cname(self.f.name) in RESUMABLE:
                return [self.yield_point()] + self.instr_load_rest(tk, dest)
            return self.instr_load_rest(tk, dest)
        if op == 'store':
            is_atomic = tk.accept('atomic'); tk.accept('volatile')
            t, v = self.typed_operand(tk); tk.expect(','); pt, p = self.typed_operand(tk)
            pre = [self.yield_point()] if (is_atomic and cname(self.f.name) in RESUMABLE) else []
            return pre + ['*(%s*)%s = %s;' % (ctype(t), p, v)]
        if op == 'getelementptr':
            tk.accept('inbounds')
            bt = parse_type(tk); tk.expect(','); pt, base = self.typed_operand(tk)
            idx = []
            while tk.accept(','):
                it, e = self.typed_operand(tk); idx.append((it, e))
            d = self.define(dest, TPtr(TInt(8)))
            if self.va_alloca and base == self.va_alloca:
                self.va_aliases = getattr(self, 'va_aliases', []) + [d]
                return ['%s = (P)%s;' % (d, self.va_alloca)]
            ge = gep_expr(bt, base, idx)
            if ge in BYTE_EXPRS: BYTE_EXPRS.add(d)
            return ['%s = %s;' % (d, ge)]
        if op in ('bitcast', 'addrspacecast'):
            st, e = self.typed_operand(tk); tk.expect('to'); dt = parse_type(tk)
            d = self.define(dest, dt)
            if self.va_alloca and e == self.va_alloca:
                self.va_aliases = getattr(self, 'va_aliases', []) + [d]
                return ['%s = (P)%s;' % (d, e)]
            if isinstance(st, TPtr) and isinstance(dt, TPtr): return ['%s = %s;' % (d, e)]
            # scalar reinterpretation
            return ['{ %s tmp__ = %s; memcpy(&%s, &tmp__, sizeof(%s)); }' % (ctype(st), e, d, d)]
        if op in ('trunc', 'zext', 'sext'):
            st, e = self.typed_operand(tk); tk.expect('to'); dt = parse_type(tk)
            d = self.define(dest, dt)
            return ['%s = %s;' % (d, cast_int(op, st, dt, e))]
        if op == 'ptrtoint':
            st, e = self.typed_operand(tk); tk.expect('to'); dt = parse_type(tk); d = self.define(dest, dt)
            if dt.w == 64: self.p2i[d] = e
            return ['%s = (%s)(uintptr_t)%s;' % (d, ctype(dt), e)]
        if op == 'inttoptr':
            st, e = self.typed_operand(tk); tk.expect('to'); dt = parse_type(tk); d = self.define(dest, dt)
            return ['%s = (P)(uintptr_t)%s;' % (d, e)]
        if op in ('fptrunc', 'fpext'):
            st, e = self.typed_operand(tk); tk.expect('to'); dt = parse_type(tk); d = self.define(dest, dt)
            return ['%s = (%s)%s;' % (d, ctype(dt), e)]
        if op in ('fptosi', 'fptoui'):
            st, e = self.typed_operand(tk); tk.expect('to'); dt = parse_type(tk); d = self.define(dest, dt)
            if op == 'fptosi': return ['%s = (%s)(%s)%s;' % (d, ctype(dt), sint(dt), e)]
            return ['%s = (%s)%s;' % (d, ctype(dt), e)]
        if op in ('sitofp', 'uitofp'):
            st, e = self.typed_operand(tk); tk.expect('to'); dt = parse_type(tk); d = self.define(dest, dt)
            if op == 'sitofp': return ['%s = (%s)(%s)%s;' % (d, ctype(dt), sint(st), e)]
            return ['%s = (%s)%s;' % (d, ctype(dt), e)]
        if op == 'select':
            while tk.peek()[0] == 'word' and tk.peek()[1] in ('fast', 'nnan', 'ninf', 'nsz', 'arcp', 'contract', 'afn', 'reassoc'): tk.next()
            ctp, c = self.typed_operand(tk); tk.expect(','); t, a = self.typed_operand(tk); tk.expect(','); t2, b = self.typed_operand(tk)
            d = self.define(dest, t)
            return ['%s = %s ? %s : %s;' % (d, c, a, b)]
        if op == 'freeze':
            t, a = self.typed_operand(tk); d = self.define(dest, t); return ['%s = %s;' % (d, a)]
        if op == 'extractvalue':
            t, a = self.typed_operand(tk)
            idxs = []
            while tk.accept(','): idxs.append(int(tk.next()[1]))
            e = a; ct = t
            for ix in idxs:
                if isinstance(ct, TStruct): e = '%s.f%d' % (e, ix); ct = ct.fields[ix]
                else: e = '%s.a[%d]' % (e, ix); ct = ct.e
            d = self.define(dest, ct)
            return ['%s = %s;' % (d, e)]
        if op == 'insertvalue':
            t, a = self.typed_operand(tk); tk.expect(','); vt, v = self.typed_operand(tk)
            idxs = []
            while tk.accept(','): idxs.append(int(tk.next()[1]))
            d = self.define(dest, t)
            e = d; ct = t
            for ix in idxs:
                if isinstance(ct, TStruct): e = '%s.f%d' % (e, ix); ct = ct.fields[ix]
                else: e = '%s.a[%d]' % (e, ix); ct = ct.e
            return ['%s = %s; %s = %s;' % (d, a, e, v)]
        if op == 'br':
            if tk.peek()[1] == 'label':
                tk.next(); return [self.edge(tk.next()[1])]
            t, c = self.typed_operand(tk); tk.expect(','); tk.expect('label'); a = tk.next()[1]; tk.expect(','); tk.expect('label'); b = tk.next()[1]
            return ['if (%s) %s else %s' % (c, self.edge(a), self.edge(b))]
        if op == 'switch':
            t, v = self.typed_operand(tk); tk.expect(','); tk.expect('label'); dflt = tk.next()[1]; tk.expect('[')
            out = ['switch (%s) {' % v]
            while not tk.accept(']'):
                ct_, cv = self.typed_operand(tk); tk.expect(','); tk.expect('label'); l = tk.next()[1]
                out.append('  case %s: %s' % (cv, self.edge(l)))
            out.append('  default: %s' % self.edge(dflt)); out.append('}')
            return out
        if op == 'ret':
            if cname(self.f.name) in RESUMABLE: return ['{ pc__ = -1; return 1; }']
            if tk.peek()[1] == 'void': return ['return;']
            t, v = self.typed_operand(tk); return ['return %s;' % v]
        if op == 'unreachable':
            return ['__ll_unreachable();']
        if op == 'call':
            return self.call(tk, dest)
        if op == 'fence':
            return ['__ll_fence();']
        if op == 'atomicrmw':
            tk.accept('volatile'); rop = tk.next()[1]; pt, p = self.typed_operand(tk); tk.expect(','); t, v = self.typed_operand(tk)
            d = self.define(dest, t); ct = ctype(t)
            upd = {'xchg': v, 'add': '(%s)(old__ + %s)' % (ct, v), 'sub': '(%s)(old__ - %s)' % (ct, v), 'and': 'old__ & %s' % v,
                   'or': 'old__ | %s' % v, 'xor': 'old__ ^ %s' % v}[rop]
            return ['{ __ll_atomic_begin(); %s old__ = *(%s*)%s; *(%s*)%s = %s; %s = old__; __ll_atomic_end(); }' % (ct, ct, p, ct, p, upd, d)]
        if op == 'cmpxchg':
            tk.accept('weak'); tk.accept('volatile'); pt, p = self.typed_operand(tk); tk.expect(','); t, c = self.typed_operand(tk); tk.expect(','); t2, nv = self.typed_operand(tk)
            rt = TStruct([t, TInt(1)]); d = self.define(dest, rt); ct = ctype(t)
            return ['{ __ll_atomic_begin(); %s old__ = *(%s*)%s; uint8_t ok__ = (old__ == %s); if (ok__) *(%s*)%s = %s; %s.f0 = old__; %s.f1 = ok__; __ll_atomic_end(); }' % (ct, ct, p, c, ct, p, nv, d, d)]
        raise NotImplementedError(op)

    def call(self, tk, dest):
        while tk.peek()[0] == 'word' and tk.peek()[1] in ('fast', 'nnan', 'ninf', 'nsz', 'arcp', 'contract', 'afn', 'reassoc', 'fastcc', 'ccc', 'coldcc'): tk.next()
        skip_param_attrs(tk)
        rt = parse_ret_type_call(tk)
        # callee
        k, v = tk.next()
        callee_name = None
        if k == 'gid': callee_name = v
        elif k == 'lid': callee = cname(v)
        elif v == 'bitcast':
            tk.expect('('); parse_type(tk); kk, vv = tk.next(); tk.expect('to'); parse_type(tk); tk.expect(')')
            if kk == 'gid': callee = gaddr(vv)
            else: callee = cname(vv)
        else: raise SyntaxError('callee %r' % v)
        tk.expect('(')
        args = []
        if not tk.accept(')'):
            while True:
                at = parse_type(tk); skip_param_attrs(tk)
                if isinstance(at, TOther):   # metadata arg
                    tk.next(); args.append((at, '0'))
                else:
                    args.append((at, self.operand(tk, at)))
                if tk.accept(')'): break
                tk.expect(',')
        fnty = rt if isinstance(rt, TFunc) else None
        ret = rt.ret if fnty else rt
        if callee_name and callee_name.startswith('@llvm.'):
            return self.intrinsic(callee_name, ret, args, dest)
        if callee_name == '@__CPROVER_assert':
            m = re.fullmatch(r'\(\(P\)&(\w+)\)', args[1][1])
            lit = STRS.get(m.group(1), b'assertion\0') if m else b'assertion\0'
            lit = lit.rstrip(b'\0').decode('latin1').replace('\\', '\\\\').replace('"', '\\"')
            return ['__CPROVER_assert(%s, "%s");' % (args[0][1], lit)]
        if callee_name == '@__CPROVER_assume':
            return ['__CPROVER_assume(%s);' % args[0][1]]
        if callee_name in ABI_OUT and dest and callee_name not in M.funcs:
            # by-value aggregate return of a C function defined outside this module: the x86-64 ABI
            # lowering (two registers) does not match the C prototype; call an out-parameter shim
            d = self.define(dest, ret)
            USED_SHIMS.add(callee_name)
            return ['%s(%s, (P)&%s);' % (ABI_OUT[callee_name], ', '.join(a for _, a in args), d)]
        if callee_name == '@_Znwm' and dest and self.alloc_types.get(dest) is not None and TYPED_NEW:
            mm = re.fullmatch(r'\(\(uint64_t\)(\d+)ULL\)', args[0][1])
            et = self.alloc_types[dest]
            try:
                es, _ = size_align(et)
            except Exception:
                es = 0
            if mm and es and int(mm.group(1)) % es == 0 and int(mm.group(1)) <= (1 << 16) and isinstance(et, (TStruct,)):
                # operator new of a class object / an array of structs: a TYPED static object per allocation site (must
                # execute at most once): cbmc keeps a field-level view, integers stored in it fold (the pointer-typed
                # pool makes every non-pointer field a type-punned access)
                FT.nheap = getattr(FT, 'nheap', 0) + 1
                k = FT.nheap
                d = self.define(dest, ret)
                n_ = int(mm.group(1)) // es
                return ['{ extern uint32_t verif_rt_section; static %s heapobj__%d[%d]; static int heap_used__%d; __CPROVER_assert(!verif_rt_section, "C03 heap allocation (operator new) inside the realtime section"); __CPROVER_assert(!heap_used__%d, "verif: typed allocation site executed more than once"); heap_used__%d = 1; %s = (P)heapobj__%d; }' % (ctype(et), k, n_, k, k, k, d, k)]
        if callee_name in ('@_Znam', '@_Znwm') and dest and dest not in self.alloc_typed:
            mm = re.fullmatch(r'\(\(uint64_t\)(\d+)ULL\)', args[0][1])
            if mm and int(mm.group(1)) <= (1 << 20):
                # raw byte storage (never viewed as a struct): a typed char object per allocation site,
                # which must execute at most once (asserted)
                FT.nheap = getattr(FT, 'nheap', 0) + 1
                k = FT.nheap
                d = self.define(dest, ret)
                return ['{ extern uint32_t verif_rt_section; static char heap__%d[%s]; static int heap_used__%d; __CPROVER_assert(!verif_rt_section, "C03 heap allocation (operator new[]) inside the realtime section"); __CPROVER_assert(!heap_used__%d, "verif: byte allocation site executed more than once"); heap_used__%d = 1; %s = (P)heap__%d; }' % (k, mm.group(1), k, k, k, d, k)]
            if not mm:
                # run-time size, raw bytes: a typed char chunk from a small pool (stubs/cxxrt.c: ll_byte_alloc, 64-byte chunks)
                d = self.define(dest, ret)
                NEED_BYTE_ALLOC.add(1)
                return ['%s = ll_byte_alloc(%s);' % (d, args[0][1])]
        if callee_name:
            callee_name = M.aliases.get(callee_name, callee_name)
            USED_FUNCS.setdefault(callee_name, (ret, [a for a, _ in args], fnty))
            if fnty or (callee_name in M.decls and M.decls[callee_name].vararg) or \
               (callee_name in M.funcs and M.funcs[callee_name].vararg):
                # variadic: call directly (prototype has ...)
                call = '%s(%s)' % (cname(callee_name), ', '.join(a for _, a in args))
            else:
                call = '%s(%s)' % (cname(callee_name), ', '.join(a for _, a in args))
        else:
            if fnty:
                pts = ', '.join(ctype(p) for p in fnty.params) + (', ...' if fnty.vararg else '')
            else:
                pts = ', '.join(ctype(a) for a, _ in args) or 'void'
            call = '((%s (*)(%s))%s)(%s)' % (ctype(ret), pts, callee, ', '.join(a for _, a in args))
        if dest and not isinstance(ret, TVoid):
            d = self.define(dest, ret)
            return ['%s = %s;' % (d, call)]
        return [call + ';']

    def intrinsic_nores(self, name, ret, args, dest):
        a = [x for _, x in args]
        base = name[6:].split('.')[0]
        return ['%s(%s, %s, (size_t)%s);' % (base, a[0], a[1], a[2])]

    def intrinsic(self, name, ret, args, dest):
        n = name[6:]
        a = [x for _, x in args]
        base = n.split('.')[0]
        if base in ('lifetime', 'dbg', 'assume', 'invariant', 'experimental', 'donothing', 'stackrestore', 'prefetch', 'var'):
            return []
        if base == 'stacksave':
            d = self.define(dest, ret); return ['%s = (P)0;' % d]
        if base in ('memcpy', 'memmove') and cname(self.f.name) in RESUMABLE:
            self._in_yield = True
            rest = self.intrinsic_nores(name, ret, args, dest)
            return [self.yield_point()] + rest
        if base in ('memcpy', 'memmove', 'memset'):
            m = re.fullmatch(r'\(\(uint64_t\)(\d+)ULL\)', a[2])
            if base == 'memcpy' and m and int(m.group(1)) % 8 == 0 and 0 < int(m.group(1)) <= 128 and a[0] not in BYTE_EXPRS and a[1] not in BYTE_EXPRS:
                n = int(m.group(1)) // 8
                return ['{ P *d__ = (P*)%s; P *s__ = (P*)%s; %s }' % (a[0], a[1], ' '.join('d__[%d] = s__[%d];' % (k, k) for k in range(n)))]
            if base == 'memset' and m and 0 < int(m.group(1)) <= 256 and a[1] == '((uint8_t)0ULL)' and a[0] not in BYTE_EXPRS:
                # zeroing (part of) a typed object: word-wise typed stores keep cbmc's field-level view of the
                # object (a byte-wise memset turns the whole struct into a byte array and nothing folds any more)
                sz = int(m.group(1)); n = sz // 8; rest = sz % 8
                st = ['d__[%d] = (P)0;' % k for k in range(n)]
                off = n * 8
                if rest >= 4: st.append('*(uint32_t*)((P)d__ + %d) = 0;' % off); off += 4; rest -= 4
                if rest >= 2: st.append('*(uint16_t*)((P)d__ + %d) = 0;' % off); off += 2; rest -= 2
                if rest >= 1: st.append('*(uint8_t*)((P)d__ + %d) = 0;' % off)
                return ['{ P *d__ = (P*)%s; %s }' % (a[0], ' '.join(st))]
            return ['%s(%s, %s, (size_t)%s);' % (base, a[0], a[1], a[2])]
        if base == 'expect':
            d = self.define(dest, ret); return ['%s = %s;' % (d, a[0])]
        if base == 'objectsize':
            d = self.define(dest, ret); return ['%s = (%s)-1;' % (d, ctype(ret))]
        if base in ('umax', 'umin', 'smax', 'smin'):
            d = self.define(dest, ret); t = ret
            if base[0] == 's': x, y = '(%s)%s' % (sint(t), a[0]), '(%s)%s' % (sint(t), a[1])
            else: x, y = a[0], a[1]
            cmp_ = '>' if base.endswith('max') else '<'
            return ['%s = (%s %s %s) ? %s : %s;' % (d, x, cmp_, y, a[0], a[1])]
        if base == 'abs':
            d = self.define(dest, ret); return ['%s = ((%s)%s < 0) ? (%s)(0 - %s) : %s;' % (d, sint(ret), a[0], ctype(ret), a[0], a[0])]
        if base in ('fabs', 'sqrt', 'floor', 'ceil', 'round', 'trunc', 'exp', 'log', 'pow', 'rint', 'nearbyint', 'exp2', 'log2', 'log10', 'sin', 'cos', 'copysign', 'minnum', 'maxnum'):
            d = self.define(dest, ret)
            fn = {'minnum': 'fmin', 'maxnum': 'fmax'}.get(base, base) + ('f' if ret.k == 'float' else '')
            return ['%s = %s(%s);' % (d, fn, ', '.join(a))]
        if base in ('umul', 'uadd', 'usub', 'smul', 'sadd', 'ssub') and '.with.overflow' in n:
            d = self.define(dest, ret); t = ret.fields[0]
            bi = {'umul': '__builtin_mul_overflow', 'smul': '__builtin_mul_overflow', 'uadd': '__builtin_add_overflow', 'sadd': '__builtin_add_overflow', 'usub': '__builtin_sub_overflow', 'ssub': '__builtin_sub_overflow'}[base]
            ty = ctype(t) if base[0] == 'u' else sint(t)
            return ['{ %s r__; %s.f1 = %s((%s)%s, (%s)%s, &r__); %s.f0 = (%s)r__; }' % (ty, d, bi, ty, a[0], ty, a[1], d, ctype(t))]
        if base == 'fmuladd':
            d = self.define(dest, ret); return ['%s = %s * %s + %s;' % (d, a[0], a[1], a[2])]
        if base == 'va_start':
            last = self.f.cparams[-1][1]
            # under cbmc va_list is a pointer that va_start assigns: refresh the aliases taken before it
            return ['va_start(%s, %s);' % (self.va_alloca, cname(last))] + ['%s = (P)%s;' % (al, self.va_alloca) for al in getattr(self, 'va_aliases', [])]
        if base == 'va_end':
            return ['va_end(%s);' % self.va_alloca]
        if base == 'trap':
            return ['__ll_trap();']
        if base in ('ctlz', 'cttz', 'ctpop', 'bswap'):
            d = self.define(dest, ret); w = ret.w
            f = {'ctlz': '__builtin_clz', 'cttz': '__builtin_ctz', 'ctpop': '__builtin_popcount', 'bswap': '__builtin_bswap'}[base]
            if base == 'bswap': return ['%s = %s%d(%s);' % (d, f, w, a[0])]
            suf = 'll' if w == 64 else ''
            if base in ('ctlz', 'cttz'):
                adj = ''
                if base == 'ctlz' and w < 32: adj = ' - %d' % (32 - w)
                return ['%s = %s ? (%s)(%s%s(%s)%s) : %d;' % (d, a[0], ctype(ret), f, suf, a[0], adj, w)]
            return ['%s = %s%s(%s);' % (d, f, suf, a[0])]
        raise NotImplementedError('intrinsic ' + name)

USED_FUNCS = {}
STRS = {}
NEED_BYTE_ALLOC = set()
TYPED_NEW = False   # --typed-new: operator new of class objects becomes a typed static object per site
ONCE_FUNCS = {'@harness'}
RESUMABLE = set()   # C names of void(void) functions emitted as resumable step functions (own sequentialisation)
ABI_OUT = {'@rtosc_argument': 'll_rtosc_argument', '@rtosc_itr_next': 'll_rtosc_itr_next'}
USED_SHIMS = set()

def parse_ret_type_call(tk):
    """type before callee in a call: either ret type or full fn type `ret (params)` (then callee follows after optional '*')"""
    # find callee token position: first gid/lid/bitcast at depth 0 followed by '('
    save = tk.i
    t = parse_type(tk)
    # parse_type may have consumed "(args...)" as function type if callee was... no: callee token precedes '('.
    # but for "call void (i8*, ...) @f(" parse_type returns TFunc (maybe followed by *) -> fine
    if isinstance(t, TPtr) and isinstance(t.to, TFunc): t = t.to
    return t

# ----------------------------------------------------------------------------
# emission
PRELUDE = r'''/* generated by ll2c.py -- do not edit */
#include <stdint.h>
#include <stddef.h>
#include <stdarg.h>
typedef char *P;
#ifndef LL2C_RUNTIME
#define LL2C_RUNTIME
#ifdef __CPROVER__
#define LL_PCMP(a, op, b) (((a) - (b)) op 0)
#define LL_PDIFF(a, b) ((a) - (b))
static inline void __ll_unreachable(void) { __CPROVER_assert(0, "ll2c: unreachable reached"); __CPROVER_assume(0); }
static inline void __ll_trap(void) { __CPROVER_assert(0, "ll2c: trap"); __CPROVER_assume(0); }
static inline void __ll_atomic_begin(void) { __CPROVER_atomic_begin(); }
static inline void __ll_atomic_end(void) { __CPROVER_atomic_end(); }
static inline void __ll_fence(void) { __CPROVER_fence("WWfence", "RRfence", "RWfence", "WRfence"); }
#else
#define LL_PCMP(a, op, b) ((uintptr_t)(a) op (uintptr_t)(b))
#define LL_PDIFF(a, b) ((uintptr_t)(a) - (uintptr_t)(b))
extern void abort(void);
static inline void __ll_unreachable(void) { abort(); }
static inline void __ll_trap(void) { abort(); }
static inline void __ll_atomic_begin(void) {}
static inline void __ll_atomic_end(void) {}
static inline void __ll_fence(void) {}
#endif
#endif
'''

def emit_struct(t, out, done, prog):
    nm = struct_cname(t)
    if nm in done: return
    if t.opaque:
        return
    if nm in prog: raise RuntimeError('recursive by-value struct ' + nm)
    prog.add(nm)
    for f in t.fields: emit_dep(f, out, done, prog)
    prog.discard(nm)
    done.add(nm)
    fs = []
    for i, f in enumerate(t.fields):
        fs.append('  %s;' % decl_of(f, 'f%d' % i))
    if not fs: fs = ['  char empty__[0];']
    out.append('struct %s%s {\n%s\n};' % ('__attribute__((packed)) ' if t.packed else '', nm, '\n'.join(fs)))
    s, a = size_align(t)
    if t.fields:
        out.append('_Static_assert(sizeof(struct %s) == %d, "layout %s");' % (nm, s, nm))
        for i in range(len(t.fields)):
            if size_align(t.fields[i])[0] == 0: continue
            out.append('_Static_assert(offsetof(struct %s, f%d) == %d, "layout %s.f%d");' % (nm, i, field_off(t, i), nm, i))

def emit_arr(t, out, done, prog):
    nm = arr_cname(t)
    if nm in done: return
    emit_dep(t.e, out, done, prog)
    done.add(nm)
    out.append('struct %s { %s; };' % (nm, decl_of(t.e, 'a[%d]' % t.n)))

def emit_dep(t, out, done, prog):
    if isinstance(t, TStruct): emit_struct(t, out, done, prog)
    elif isinstance(t, TArr): emit_arr(t, out, done, prog)

def decl_of(t, name):
    return '%s %s' % (ctype(t), name)

def fn_proto(name, ret, params, vararg):
    ps = ', '.join('%s %s' % (ctype(pt), cname(pn) if pn else '') for pt, pn in params)
    if vararg: ps = (ps + ', ...') if ps else '...'
    if not ps: ps = 'void'
    return '%s %s(%s)' % (ctype(ret), cname(name), ps)

def main():
    args = sys.argv[1:]
    global TYPED_NEW
    if '--typed-new' in args:
        TYPED_NEW = True
        args.remove('--typed-new')
    if '--resumable' in args:
        i_ = args.index('--resumable')
        RESUMABLE.update(args[i_ + 1].split(','))
        del args[i_:i_ + 2]
    src = open(args[0]).read()
    parse_module(src)
    fts = {}
    for name in list(M.funcs):
        ft = FT(M.funcs[name]); ft.translate(); fts[name] = ft
    protos = []
    declared = set()
    for name, f in M.funcs.items():
        protos.append(fn_proto(name, f.ret, f.cparams, f.vararg) + ';'); declared.add(cname(name))
        if cname(name) in RESUMABLE:
            protos.append('uint32_t %s__step(void);' % cname(name)); declared.add(cname(name) + '__step')
    for name, ft in M.decls.items():
        if name.startswith('@llvm.') or name in M.funcs: continue
        cn = cname(name)
        ps = ', '.join(ctype(p) for p in ft.params)
        if ft.vararg: ps = (ps + ', ...') if ps else '...'
        if cn.startswith('__CPROVER_'): continue
        if name in USED_SHIMS:
            protos.append('extern void %s(%s, P);' % (ABI_OUT[name], ps)); declared.add(ABI_OUT[name])
            continue
        protos.append('extern %s %s(%s);' % (ctype(ft.ret), cn, ps or 'void')); declared.add(cn)
    if NEED_BYTE_ALLOC: protos.append('extern P ll_byte_alloc(uint64_t);')
    for cn, pr in (('memcpy', 'extern void *memcpy(void*, const void*, size_t);'), ('memmove', 'extern void *memmove(void*, const void*, size_t);'),
                   ('memset', 'extern void *memset(void*, int, size_t);')):
        if cn not in declared: protos.append(pr)
    gl = []
    for name, g in M.globals.items():
        t = g['type']; cn = cname(name)
        try: gl.append('extern %s%s %s;' % ('const ' if g['const'] and not g['external'] else '', ctype(t), cn))
        except ValueError: gl.append('extern char %s[];' % cn)
    for name, g in M.globals.items():
        if g['external']: continue
        t = g['type']; cn = cname(name)
        init = g['init']
        if init is None: init = '{0}'
        m = re.match(r'^\(\((struct \w+|u?int\d+_t|P|float|double)\)(\{.*\})\)$', init, re.S)
        if m: init = m.group(2)
        gl.append('%s%s %s = %s;' % ('const ' if g['const'] else '', ctype(t), cn, init))
    fb = []
    for name, ft in fts.items():
        f = ft.f
        res = cname(name) in RESUMABLE
        if res:
            assert not f.cparams, 'resumable functions take no parameters'
            fb.append('extern uint32_t verif_yield(void);')
            fb.append('uint32_t %s__step(void) {  /* resumable form of %s: returns 1 when the thread body has finished */' % (cname(name), cname(name)))
            fb.append('  static int pc__ = 0;')
        else:
            fb.append(fn_proto(name, f.ret, f.cparams, f.vararg) + ' {')
        pn = set(cname(p) for _, p in f.cparams)
        for v, t in ft.decl.items():
            if t == 'va_list': fb.append('  va_list %s;' % v)
            elif isinstance(t, tuple):
                _, mt, n = t
                # functions that run exactly once (static constructors, the harness entry): give their
                # stack objects static storage -- cbmc propagates constants through statics but not
                # through address-taken locals (e.g. the backing array of an initializer_list)
                once = name.startswith('@_GLOBAL__sub_I') or name.startswith('@__cxx_global_var_init') or name in ONCE_FUNCS
                fb.append('  %s%s %s[%d];' % ('static ' if (once or res) else '', ctype(mt), v, n))
            else:
                if v in pn: continue
                fb.append('  %s%s %s;' % ('static ' if res else '', ctype(t), v))
        if res:
            fb.append('  switch(pc__) { case -1: return 1; case 0: ;')
            fb.extend(ft.body)
            fb.append('  }')
            fb.append('  pc__ = -1; return 1;')
            fb.append('}')
            fb.append('void %s(void) { while(!%s__step()) ; }' % (cname(name), cname(name)))
        else:
            fb.extend(ft.body)
            fb.append('}')
    fb.append('#ifndef __CPROVER__')
    for a, tgt in M.aliases.items():
        if tgt in M.funcs: fb.append('extern __typeof(%s) %s __attribute__((alias("%s")));' % (cname(tgt), cname(a), cname(tgt)))
    fb.append('#endif')
    if M.ctors:
        fb.append('void __ll_global_ctors(void) {')
        for c in M.ctors: fb.append('  %s();' % cname(c))
        fb.append('}')
    # types last (everything is registered now)
    done = set(); prog = set(); tout = []
    for st in list(M.named.values()):
        if not st.opaque:
            try: emit_struct(st, tout, done, prog)
            except ValueError as e: tout.append('/* skipped %s: %s */' % (st.name, e))
    changed = True
    while changed:
        changed = False
        for t in list(ANON):
            if struct_cname(t) not in done: emit_struct(t, tout, done, prog); changed = True
        for t in list(ARRS):
            if arr_cname(t) not in done: emit_arr(t, tout, done, prog); changed = True
    open(args[1], 'w').write('\n'.join([PRELUDE] + tout + protos + gl + fb) + '\n')

LIBC = set()
if __name__ == '__main__':
    main()
